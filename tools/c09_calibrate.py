#!/usr/bin/env python3
"""Calibration of lv/scope.py: every predicate of every .l program of the repository, in the
dialect the program declares, must compile to SQL the scanner accepts.
usage: /venv/bin/python tools/c09_calibrate.py [repo]"""
import glob, os, sys
repo = os.path.abspath(sys.argv[1] if len(sys.argv) > 1 else '/repo')
os.environ['LOGICA_PARSER'] = 'PY'
sys.path.insert(0, repo)
sys.path.insert(1, os.path.dirname(os.path.dirname(os.path.abspath(__file__))))
os.chdir(repo)
from parser_py import parse
from compiler import universe
from lv import scope
files = sorted(glob.glob('integration_tests/**/*.l', recursive=True) + glob.glob('examples/**/*.l', recursive=True))
n = bad = 0
per = {}
for f in files:
  try:
    parse.TOO_MUCH = 'too much'
    rules = parse.ParseFile(open(f).read(), import_root=repo)['rule']
    prog = universe.LogicaProgram(rules)
  except BaseException:
    continue
  eng = prog.annotations.Engine()
  preds = []
  for r in rules:
    nm = r['head']['predicate_name']
    if nm[0] != '@' and nm not in preds and '_MultBodyAggAux' not in nm:
      preds.append(nm)
  for p in preds:
    try:
      sql = prog.FormattedPredicateSql(p)
    except BaseException:
      continue
    n += 1
    per[eng] = per.get(eng, 0) + 1
    probs = scope.check(sql, eng)
    if probs:
      bad += 1
      if bad <= int(os.environ.get('SHOW', '15')):
        print('---', f, p, eng)
        for q in probs[:3]:
          print('   ', q)
          import re
          m = re.search(r'offset (\d+)|at (\d+)', q)
          if m:
            o = int(m.group(1) or m.group(2))
            print('      ...%s...' % sql[max(0, o - 60):o + 60].replace('\n', ' '))
print('checked', n, 'flagged', bad, per)
