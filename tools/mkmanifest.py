#!/usr/bin/env python3
"""Regenerates MANIFEST.json from the table below (keeps the file valid by construction).
Usage: python3 tools/mkmanifest.py"""
import json
import os

HERE = os.path.dirname(os.path.dirname(os.path.abspath(__file__)))

CHECKS = {
    # id: (category, technique, level text, level note, design ref, engine)
    'C01': ('translation_validation',
            'bounded symbolic evaluation of the emitted SQL in z3 vs a reference denotation; unsat = equal on every database within the bound; sat models replayed on real SQLite',
            'For each catalogue program of the core family (and of the small exprs family: `else if` chains with overlapping conditions and repeated values, nested negations) and each of its predicates, z3 proves that the SQL text emitted by the current compiler returns the reference multiset on every database with <=K rows per table (integers in [-2^20,2^20]); column names compared concretely. Program shape is enumerated (seeded catalogue), data is universally quantified by the solver.',
            'Trusted: lv/sqlsem.py (SQL subset semantics, validated against real SQLite each run), lv/refsem.py (reading of the docs), z3. Outside: strings beyond constants, / and %, more than K rows, programs outside the family.',
            'DESIGN.md §2.1, §3 C01', 'sqlsmt'),
    'C02': ('translation_validation',
            'bounded symbolic evaluation of the emitted SQL (GROUP BY, correlated scalar sub-queries, aggregate functions) in z3 vs a reference denotation; unsat = equal on every database within the bound; sat models replayed on real SQLite',
            'For each catalogue program of the agg family, z3 proves the emitted SQL returns the reference multiset (distinct keys once, aggregates over all bodies, combines per outer binding, nulls ignored, null on no solution, negation = no solution) on every database with <=K rows per table incl. NULLs in aggregated columns, empty groups and ties.',
            'Trusted: lv/sqlsem.py, lv/refsem.py, z3. The K-best aggregates are additionally compared model / SQLite / reference on 24 grouped concrete databases per program (their Python heap logic is abstracted in the SQL model). Count of nothing = 0; ArgMin/ArgMax under no-tie assumption; List compared as multiset. Known finding KF-C02-list-of-nothing (List{} of nothing is [] on SQLite) is reported as KNOWN-FINDING and the predicate re-decided with that deviation accepted.',
            'DESIGN.md §2.1, §3 C02', 'sqlsmt'),
    'C03': ('translation_validation',
            'bounded symbolic evaluation (z3, domain compaction) of the unfolded recursion SQL, and of the iterative plan executed by the real concertina_lib with a symbolic sql_runner, vs depth+1 reference applications of the rules from empty relations; sat models replayed on real SQLite',
            'For each catalogue recursive program and every graph with <=K edges z3 proves result == T^(depth+1)(empty) (self recursion, flat and iterative unfolding, depths 1,2,3,8,21,22,24) or, for vertical unfolding of a cut cycle, T^(depth+1)(empty) <= result <= lfp.',
            'Trusted: lv/sqlsem.py, lv/refsem.py, z3. Upper containment bound checked against T^(cycle*(depth+1)) and confirmed against a concretely computed least fixpoint on replay. Outside: diamond mode, stop signals inside compiled recursion, depth infinity, execution of an iterative plan as a plain script without concertina_lib (logica.py run on SQLite; performs the ignition steps only, upstream TODO).',
            'DESIGN.md §2.1, §3 C03', 'sqlsmt'),
    'C04': ('translation_validation',
            'metamorphic: program with functor applications vs the program substituted by hand on the catalogue AST, both compiled by the real compiler; equivalence of the emitted SQL decided by z3 over a bounded symbolic database; sat models replayed on real SQLite',
            'For each catalogue functor program z3 proves every made predicate equals its hand-substituted definition, and F, its arguments and bystanders equal their meaning in the program without :=, on every database with <=2 rows per table.',
            'Trusted: lv/sqlsem.py, lv/gen_meta.py hand_substitute, z3. Outside: functors over recursive predicates, constant arguments.',
            'DESIGN.md §3 C04', 'sqlsmt'),
    'C05': ('other',
            'CrossHair symbolic execution of the real TypesInferenceEngine + TypeErrorChecker on really parsed skeleton programs whose literal kinds / accessed field names are symbolic; postcondition = union-find over must-agree occurrences known from the skeleton; claimed on "Confirmed over all paths"; counterexamples replayed on the real code',
            'For 17 skeletons (incl. sibling combines sharing outer variables, in both conjunct orders) and every assignment of {Num, Str, Bool} to their literals the checker rejects exactly the clashing assignments and gives the expected signature otherwise, whatever the order of rules and conjuncts; a missing field of a closed record is rejected in both conjunct orders.',
            'Trusted: CrossHair, the must-agree classes written next to each skeleton. Narrow: enumerated skeletons only; the clause about run-time values inhabiting the inferred types is not decided.',
            'DESIGN.md §3 C05', 'kern'),
    'C07': ('translation_validation',
            'metamorphic: original and permuted/renamed program both compiled by the real compiler, equivalence of the two emitted SQL texts decided by z3 over a bounded symbolic database; sat models replayed on real SQLite',
            'For each catalogue program (core, agg, rec, layered, sugarbase, functor programs) and a permutation of rules/conjuncts/disjuncts, a renaming of variables/predicates, or an alpha-renaming of the variables local to one aggregating expression, z3 proves both emitted SQL texts return the same multiset on every database with <=K rows per table; a transformed program that is rejected while the original compiles is a violation.',
            'Trusted: lv/sqlsem.py, z3. Known finding KF-C07-order-dependent-elimination. Part (b) of the design (order independence of the Python aggregate UDFs ArgMin/ArgMax/Set/ArrayConcatAgg) is decided by the kernels of the C20 check, which also carry the Set arrival-order known finding.',
            'DESIGN.md §3 C07', 'sqlsmt'),
    'C08': ('translation_validation',
            'metamorphic: the same program under its default plan and under a seeded assignment of @NoInject/@With/@NoWith/@Ground to its intermediates, both compiled by the real compiler; equivalence decided by z3 over a bounded symbolic database (multi-statement @Ground plans through a symbolic statement interpreter); sat models replayed on real SQLite',
            'For each catalogue program (layered, core) and each sampled annotation assignment z3 proves the rows of the final predicates are unchanged on every database with <=2 rows per table; pairs with identical SQL are counted trivial.',
            'Trusted: lv/sqlsem.py, z3.',
            'DESIGN.md §3 C08', 'sqlsmt'),
    'C09': ('other',
            'CrossHair-driven enumeration: for each of the eight engines one kernel takes the index of a (catalogue program, predicate) pair as its only symbolic variable, branches on it, and runs the whole real compilation for that engine followed by a structural scan of the emitted SQL (lv/scope.py) natively; claimed on "Confirmed over all paths" = every pair executed; counterexamples replayed in a fresh interpreter',
            'For 40 (160 thorough) catalogue programs x 8 engines, compilation ends in SQL or in one of the four diagnostic types - never in another exception - and the SQL has terminated literals and comments, balanced brackets, every alias.column resolved by a FROM clause of the same or an enclosing query, WITH tables defined before use and no unexpanded %s / {0} / ${flag} placeholder. Program shape is enumerated, not symbolic; the scoping verdict comes from a lexical scanner, not from the solver.',
            'Trusted: lv/scope.py (calibrated on the 801 predicates of integration_tests/ and examples/ in their own dialects: none flagged), CrossHair for the enumeration. The scanner does not know column lists (a missing column of an existing alias is not detected). Fixed defect: Databricks.Subscript arity.',
            'DESIGN.md §3 C09', 'variants'),
    'C10': ('other',
            'z3 encoding of QL.StrLiteral regenerated from the source AST on every run (per-character transducer + dialect lexer automaton over N symbolic code points with symbolic length; unsat = every string is emitted as one literal that decodes to itself); CrossHair lemmas for ParseString (double-, triple- and single-quoted incl. four escapes), flag override / rejection / expansion, scanner string opacity, and strings full of template metacharacters passed through 12 built-in templates and run on real SQLite (indices symbolic, run native); witnesses replayed on the real StrLiteral, a concrete lexer and real SQLite',
            'For all 8 dialects and every string of <=12 (24 thorough) code points the emitted literal is one well-formed token of that dialect whose decoded value is the string; double-quoted, triple-quoted and (backslash-free) single-quoted Logica literals parse to their body over every code point class; a user flag value overrides the default, undefined flags are rejected, ${flag} is expanded; string bodies are opaque to the scanner; a string argument containing {1}, {0}, {}, %s, %(x)s, quotes or backslashes reaches the result unchanged through Join, ++, Element, if, Greatest, in, Like, ToString, Size.',
            'Trusted: dialect lexical rules (SQLite rule validated on real SQLite), z3, CrossHair; ast.literal_eval is replaced by its contract on backslash-free bodies (validated against the interpreter each run). Outside: backslash escapes in single-quoted literals, exotic control characters, values spelling ${flag}.',
            'DESIGN.md §3 C10', 'z3k'),
    'C11': ('translation_validation',
            'metamorphic: short and long form of each documented shorthand (AST rewrite at every site) compiled by the real compiler, equivalence of the emitted SQL decided by z3 over a bounded symbolic database; sat models replayed on real SQLite',
            'For each catalogue program (core, agg, sugarbase, exprs: else-if chains and nested negations) and each applicable documented equivalence, z3 proves short form == long form on every database with <=K rows per table; a long form rejected by the compiler is a violation.',
            'Trusted: lv/sqlsem.py, z3. Known finding KF-C11-eq-after-expression.',
            'DESIGN.md §3 C11', 'sqlsmt'),
    'C12': ('translation_validation',
            '(a) metamorphic: program split over import files vs generator-flattened single file, both compiled by the real compiler, equivalence decided by z3 over a bounded symbolic database; (b,c) CrossHair symbolic execution of the real ParseFile prefix loop and import acceptance rules, claimed on "Confirmed over all paths"; counterexamples replayed',
            'z3 proves split == flattened for each of 10 enumerated import layouts (incl. one module under two import roots, one predicate imported under two names) on every database with <=2 rows per table; CrossHair confirms distinct non-empty prefixes for all ordered pairs of distinct import paths up to depth 2 (3 thorough) over a 3-word alphabet, and that imports are rejected exactly per the documented rules over 15x8 configurations.',
            'Trusted: lv/sqlsem.py, z3, CrossHair. Outside: C++ parser, import graphs beyond the layouts.',
            'DESIGN.md §3 C12', 'sqlsmt'),
    'C13': ('other',
            'CrossHair over whole compilations of pre-parsed programs: (b) compiler sources are rewritten at import (AST) so that every ordered consumption of a set consults a symbolic order mask - SQL under every mask of a pair-separating family must equal the canonical-order SQL; (c) sequences of earlier compilations (symbolic choice) followed by a target whose SQL must have the digest of a fresh interpreter, and the same rules object compiled twice; (a) real parse.ParseGenericCall under both values of the module-level parser switch; the symbolic choice is branched on first and the concrete remainder runs untraced; counterexamples replayed in fresh interpreters (incl. a search for real PYTHONHASHSEED values that differ)',
            'For 14 programs (unnestings, every recursion mode incl. iterative depth>20, functors, @Ground plans, combines, type-checked psql/duckdb records) the SQL and export map are identical under all 16 (256 thorough) set-order masks; for 8 dialect targets the SQL after any one or two earlier compilations of the 8 dialect programs equals that of a fresh process; compiling one parsed rules object twice gives the same SQL and leaves the rules untouched; the parser-mode channel is decided separately (known finding).',
            'Trusted: CrossHair, the claim that set iteration order is the only hash-seed channel (no hash/id/random in the compiler sources; grep at design time). Bound: one mask per compilation (not independent orders per iteration event), histories of <=2 compilations, imports and flags not varied. Cuts: dialect-library parse memoised, programs parsed at harness import.',
            'DESIGN.md §3 C13', 'kern'),
    'C14': ('other',
            '(a) CrossHair symbolic execution of the real Concertina scheduler over symbolic DAGs, iteration groups, repetition counts and stop instants ("Confirmed over all paths"); (b) z3 equivalence of plans executed by the real ExecuteLogicaProgram with a symbolic sql_runner for different sets of requested predicates; counterexamples replayed on the real code',
            'All 64 DAGs on 4 actions x iteration-group shapes x repetitions 1..3 (and stop instants) are confirmed to run every action after its prerequisites, non-iterated ones once, iterated ones round-robin the declared number of times, and to terminate; compiled @Ground/deep-recursion plans return the same table for a predicate whether asked alone or together with one or two others (in either order, incl. the grounded inputs themselves), never read a table before it is produced, and satisfy the shape invariant the scheduler proof assumes.',
            'Trusted: CrossHair, z3, lv/sqlsem.py. Stubs: display functions, os/open for the stop file. Bound: 4 actions (6 for two groups), name assignments sampled (2 quick / 4 thorough).',
            'DESIGN.md §3 C14', 'kern'),
    'C15': ('other',
            'CrossHair symbolic execution of the real scanner functions (Traverse, RemoveComments, IsWhole, SplitRaw, Split, Strip, StripSpaces, HeritageAwareString slicing) over all strings / slice bounds within a length bound; each lemma claimed on "Confirmed over all paths"; plus whole ParseFile runs on eight programs with the placement and kind of layout noise symbolic (solver-driven enumeration, parse executed natively on the resulting concrete text); counterexamples replayed on the real functions',
            'String bodies are opaque to the scanner and to every separator split; block and line comments are invisible; blanks, one pair of redundant parentheses and a trailing semicolon do not change what Split/Strip return; every slice of a HeritageAwareString spans exactly its own text (all strings within the bound). For eight programs covering the statement forms, replacing any blank outside a string literal by more blanks, a line break, a tab or a comment (also one containing brackets, quotes and :-) leaves the rules returned by ParseFile unchanged and every span attached to a node equal to its text.',
            'Trusted: CrossHair. Bound: <=2 free body characters between enumerated contexts, <=3 (4 thorough) free characters elsewhere, heritage of 10 characters; 1472 placements on 8 programs. Known finding KF-C15-keyword-needs-blanks. Outside: C++ parser, noise where the source has no blank.',
            'DESIGN.md §3 C15', 'kern'),
    'C16': ('other',
            'CrossHair symbolic execution of the real reference_algebra.Unify / TypeReference.CloseRecord over symbolic type terms, partitioned by top-level constructors so that every partition reaches "Confirmed over all paths"; postcondition = independent structural meet; counterexamples replayed on the real code',
            'For all ordered pairs of type terms of depth <=1 (quick: one record field; thorough: two fields and lists inside records) Unify is confirmed symmetric, idempotent, equal to the structural meet on both references, and clashing exactly when the meet is empty; for constructor triples x all atom payloads the result is independent of the unification order when clash-free; closing an open record through the root or through an alias of its union-find chain leaves every handle denoting the closed record, and a third term unified through any handle gives the meet with the closed record.',
            'Trusted: CrossHair, the harness-side meet. Outside: depth 3, more than two fields, cyclic references.',
            'DESIGN.md §3 C16', 'kern'),
    'C17': ('translation_validation',
            'histories of CLI-style runs: the statement list of each run is passed through the real sqlite3_logica.RunSqlScript (recording connection) and the texts it hands to SQLite are executed by a symbolic statement interpreter (ATTACH aliases and files, DROP/CREATE, SELECT) over a symbolic database file; each assertion is a z3 equivalence between stores/rows; sat models replayed on a real SQLite file',
            'For each catalogue program with grounded intermediates (attached as logica_home or logica_test, default or explicit table names, one or two attached files with @Dataset) and each enumerated history of <=3 runs, z3 proves for every database content within the bound: dependant rows == program without @Ground; the table of P in the attached file == P alone; printing P writes nothing; re-runs return the same rows and leave the same tables.',
            'Trusted: lv/sqlsem.py statement interpreter, z3. Outside: overwrite:false, copy_to_file.',
            'DESIGN.md §3 C17', 'sqlsmt'),
    'C18': ('translation_validation',
            'bounded symbolic evaluation of ORDER BY/LIMIT in the emitted SQL (z3) vs the first K rows of the reference multiset in the requested order, position-wise for the ordered predicate and as multisets for its consumers; sat models replayed on real SQLite',
            'For each catalogue program with an ordered/limited predicate (one atom, join, several rules, a nil disjunct, distinct, aggregation, expressions, a recursive "beam" whose every generation is limited, a clone made by a functor application) z3 proves, for every database with <=K rows whose sort keys form a total order, that the predicate returns exactly the first K reference rows in order and that consumers read exactly those rows (so it was not inlined without its clauses).',
            'Trusted: lv/sqlsem.py, lv/refsem.py, lv/vals.py order_limit_rel, z3. Assumes distinct non-null sort keys.',
            'DESIGN.md §3 C18', 'sqlsmt'),
    'C19': ('other',
            'CrossHair: (lexical clause) symbolic execution of the real RemoveComments over all strings within a length bound against an independent lexical specification; (program-shape clauses) whole compilation of every variant of six catalogues of valid/invalid programs with the variant index symbolic (solver-driven enumeration, concrete remainder untraced), diagnostic expected exactly for the invalid variants; counterexamples replayed in a fresh interpreter without the harness cuts',
            'Unbalanced brackets and a newline inside a double-quoted literal are reported through ParsingException exactly when present for every string of length <=3 (4 thorough); 73 program variants covering range restriction (head, comparison, negated comparison, expression variables; inlined predicates next to a same-named caller variable), functor arguments the functor does not depend on (alone, mixed with valid ones, after an earlier application), recursion without a base case, annotations of missing predicates, aggregation/distinct coherence are rejected with one of the four diagnostic types exactly when invalid, and never with another exception.',
            'Trusted: CrossHair, the harness-side lexical specification, the valid/invalid marking of the variants. Program shape is enumerated (catalogues), not symbolic. Not claimed: @Ground/@Recursive naming an undefined predicate, diagnostic wording.',
            'DESIGN.md §3 C19', 'kern'),
    'C20': ('other',
            'CrossHair symbolic execution of the real Python UDFs with unbounded symbolic ints over all arrival orders ("Confirmed over all paths"); CrossHair-enumerated sequences g, f, g of UDF calls on one list text executed natively with the real json module (non-interference); z3 model of CPython set iteration to realise the Set-order candidate; z3 translation validation of the SQL-template built-ins (Range, Size, Element, in, Least/Greatest, arithmetic, comparison) against the reference; counterexamples replayed on the real code / real SQLite',
            'ArgMin/ArgMax/ArgMinK/ArgMaxK/Array, ArrayConcatAgg, ArrayConcat, SortList, InList, Join and the content of Set are confirmed against one-line specifications for every arrival order (n<=4, ties excepted); a UDF answers the same before and after any other UDF saw the same list text (12 texts x 25 ordered pairs); template built-ins (incl. % by a constant with the sign of the dividend) are proved against the reference on every database with <=2 rows.',
            'Trusted: CrossHair, z3, lv/sqlsem.py model of the SQLite primitives, json stubbed as identity in the per-UDF kernels. Known finding KF-C20-set-arrival-order. Outside: ++, Split, ToString/ToInt64, floats.',
            'DESIGN.md §3 C20', 'kern'),
}

NOT_APPLICABLE = {
    'C06': 'needs symbolic execution of a 2.7 kLoC C++ parser built on libstdc++ strings/containers/exceptions behind a ctypes ABI; no engine in this sandbox executes it symbolically and a ctypes call realises symbolic input (DESIGN.md §4)',
}

NOT_YET = 'check not built yet in this round (planned in DESIGN.md §3); not claimed'

ALL = ['C%02d' % i for i in range(1, 21)]


def main():
  checks = []
  for pid in ALL:
    if pid not in CHECKS:
      continue
    cat, tech, text, note, ref, engine = CHECKS[pid]
    checks.append({
        'property_id': pid,
        'quick_cmd': 'bin/check %s --tier quick' % pid,
        'thorough_cmd': 'bin/check %s --tier thorough' % pid,
        'evidence_file': 'evidence/%s.json' % pid,
        'replay_cmd_template': 'bin/check %s --replay {path}' % pid,
        'engine': engine,
        'level_claimed': {'category': cat, 'text': text, 'design_ref': ref},
        'level_note': note,
        'technique': tech,
    })
  na = []
  for pid in ALL:
    if pid in CHECKS:
      continue
    na.append({'property_id': pid, 'reason': NOT_APPLICABLE.get(pid, NOT_YET)})
  manifest = {
      'version': 1,
      'setup_cmd': 'bin/setup',
      'hooks': {
          'guard': 'LOGICA_VERIF',
          'enable': 'no source hooks are needed: checks import /repo modules directly and inject a symbolic sql_runner / stubs from the harness side',
          'baseline_off_cmd': 'cd /repo && /venv/bin/python -m pytest -ra -q -p no:cacheprovider --timeout=900 --continue-on-collection-errors',
          'source_commits': [],
          'add_only': True,
      },
      'engines': [
          {'name': 'sqlsmt', 'path': 'lv/sqlparse.py lv/sqlsem.py lv/refsem.py lv/vals.py lv/e1.py lv/tv.py lv/gen.py',
           'serves_properties': sorted(p for p, c in CHECKS.items() if c[5] == 'sqlsmt'),
           'kind_free_text': 'z3 bounded symbolic evaluation of the SQL emitted by the real compiler over a symbolic database, compared with an oracle; counterexamples replayed on real SQLite'},
          {'name': 'kern', 'path': 'lv/kern/',
           'serves_properties': sorted(p for p, c in CHECKS.items() if c[5] == 'kern'),
           'kind_free_text': 'CrossHair (z3-backed symbolic execution) over real Python functions of /repo with contracts; counterexamples replayed concretely'},
          {'name': 'variants', 'path': 'lv/variants.py lv/ordset.py lv/scope.py',
           'serves_properties': sorted(p for p, c in CHECKS.items() if c[5] == 'variants') + ['C13', 'C19'],
           'kind_free_text': 'whole compilations of pre-parsed catalogue programs under CrossHair with a symbolic choice (variant index, set-order mask, history); the concrete remainder of each path runs natively'},
          {'name': 'z3k', 'path': 'lv/z3k/',
           'serves_properties': sorted(p for p, c in CHECKS.items() if c[5] == 'z3k'),
           'kind_free_text': 'direct z3 encodings extracted from the source AST of /repo on every run'},
      ],
      'checks': checks,
      'not_applicable': na,
      'notes': 'Exit codes: 0 held, 1 VIOLATION (replayed), 2 INCONCLUSIVE, 3 HARNESS-ERROR. Known findings: known_findings.json.',
  }
  with open(os.path.join(HERE, 'MANIFEST.json'), 'w') as f:
    json.dump(manifest, f, indent=1)
  print('wrote MANIFEST.json with %d checks, %d not applicable' % (len(checks), len(na)))


if __name__ == '__main__':
  main()
