#!/usr/bin/env python3
"""Compile every .l program of a Logica tree and print a digest of the SQL per predicate.
usage: PYTHONHASHSEED=0 /venv/bin/python tools/corpus_sql.py <repo_dir> > out.json
Used to confirm that a `fix:` commit leaves the SQL of the repository's own programs unchanged."""
import glob, hashlib, json, os, sys
repo = os.path.abspath(sys.argv[1])
os.environ['LOGICA_PARSER'] = 'PY'
sys.path.insert(0, repo)
os.chdir(repo)
from parser_py import parse
from compiler import universe
import re
out = {}
files = sorted(glob.glob('integration_tests/**/*.l', recursive=True) + glob.glob('examples/**/*.l', recursive=True))
for f in files:
  text = open(f).read()
  try:
    parse.TOO_MUCH = 'too much'
    rules = parse.ParseFile(text, import_root=repo)['rule']
  except BaseException as e:
    out[f] = 'parse:' + type(e).__name__
    continue
  preds = []
  for r in rules:
    n = r['head']['predicate_name']
    if n[0] != '@' and n not in preds and '_MultBodyAggAux' not in n:
      preds.append(n)
  try:
    prog = universe.LogicaProgram(rules)
  except BaseException as e:
    out[f] = 'program:' + type(e).__name__
    continue
  for p in preds:
    try:
      sql = prog.FormattedPredicateSql(p)
      sql = re.sub(r'logica_stop_\w+', 'STOP', sql)
      sql = re.sub(r'\d{9,}', 'TS', sql)
      out[f + '::' + p] = hashlib.sha1(sql.encode()).hexdigest()[:12]
    except BaseException as e:
      out[f + '::' + p] = 'err:' + type(e).__name__
json.dump(out, sys.stdout, indent=0, sort_keys=True)
