#!/usr/bin/env python3
"""dev helper: run one pair/case generator over a seed range without the kernel parts.
   tools/devpairs.py pairs c12_pairs 0 20     |  tools/devpairs.py tv orderby 0 40"""
import os, sys
sys.path.insert(0, os.path.dirname(os.path.dirname(os.path.abspath(__file__))))
os.environ.setdefault('LOGICA_PARSER', 'PY')
from lv.checks import pairrun, tvrun
import collections
kind, name, lo, hi = sys.argv[1], sys.argv[2], int(sys.argv[3]), int(sys.argv[4])
cnt = collections.Counter()
for s in range(lo, hi):
  if kind == 'pairs':
    res = pairrun._work(('DEV', 'lv.gen_meta', name, s, 60000))
  else:
    res = tvrun._work(('DEV', name, s, None, 60000, True))
    for p in res.get('selftest', {}).get('problems', []):
      print('SELFTEST', s, str(p)[:600])
  for r in res['results']:
    cnt[r['status']] += 1
    if r['status'] not in ('proved', 'trivial'):
      print(s, r.get('label') or r.get('pred'), r['status'], r.get('kind'), str(r.get('why'))[:300])
      if r['status'] in ('violation', 'harness_error'):
        print(str(r.get('replay') or r.get('detail'))[:1500])
print(dict(cnt))
