#!/usr/bin/env python3
"""Seeded-change bookkeeping.

  tools/seeded.py confirm <src_dir> <seed_id> <property>   # src_dir has patch.diff demo.py README.md
      confirms in a scratch worktree of /repo: demo passes without the patch, fails with it,
      the pinned test suite still has its 40 passes; stores it under seeded/<seed_id>/.
  tools/seeded.py run <seed_id> [CHECK ...]                 # default: the property's own check
      applies the patch to /repo, runs the quick checks, reverts; records exit codes in meta.json.
  tools/seeded.py runall [CHECK...]                         # every stored seed against its own check
"""
import json
import os
import re
import shutil
import subprocess
import sys
import time

HERE = os.path.dirname(os.path.dirname(os.path.abspath(__file__)))
SEEDED = os.path.join(HERE, 'seeded')
PY = '/venv/bin/python'
TEST_CMD = [PY, '-m', 'pytest', '-q', '-p', 'no:cacheprovider', '--timeout=900',
            '--continue-on-collection-errors']


def sh(cmd, cwd=None, env=None, timeout=3600):
  p = subprocess.run(cmd, cwd=cwd, env=env, stdout=subprocess.PIPE, stderr=subprocess.STDOUT,
                     text=True, timeout=timeout)
  return p.returncode, p.stdout


def confirm(src, sid, prop):
  wt = '/tmp/seed_confirm_%s' % sid
  subprocess.run(['git', '-C', '/repo', 'worktree', 'remove', '--force', wt],
                 stdout=subprocess.DEVNULL, stderr=subprocess.DEVNULL)
  rc, out = sh(['git', '-C', '/repo', 'worktree', 'add', '--detach', wt, 'HEAD'])
  assert rc == 0, out
  try:
    demo_src = open(os.path.join(src, 'demo.py')).read()
    demo = re.sub(r"/tmp/wt[4567]?/C\d+\w*", wt, demo_src)
    demo_path = os.path.join(wt, '_seed_demo.py')
    open(demo_path, 'w').write(demo)
    rc0, out0 = sh([PY, demo_path], cwd=wt)
    rc, out = sh(['git', '-C', wt, 'apply', os.path.join(os.path.abspath(src), 'patch.diff')])
    assert rc == 0, 'patch does not apply: ' + out
    rc1, out1 = sh([PY, demo_path], cwd=wt)
    os.remove(demo_path)
    rct, outt = sh(TEST_CMD, cwd=wt)
    tail = outt.strip().splitlines()[-1]
    ok = rc0 == 0 and rc1 != 0 and '40 passed' in tail
    print('demo clean rc=%d, demo mutated rc=%d, tests: %s -> %s' % (rc0, rc1, tail, 'CONFIRMED' if ok else 'REJECTED'))
    if not ok:
      print(out0[-500:], out1[-500:])
      return 1
    dst = os.path.join(SEEDED, sid)
    os.makedirs(dst, exist_ok=True)
    shutil.copy(os.path.join(src, 'patch.diff'), os.path.join(dst, 'patch.diff'))
    open(os.path.join(dst, 'demo.py'), 'w').write(re.sub(r"/tmp/wt[4567]?/C\d+\w*", '/repo', demo_src))
    readme = open(os.path.join(src, 'README.md')).read() if os.path.exists(os.path.join(src, 'README.md')) else ''
    open(os.path.join(dst, 'README.md'), 'w').write(readme)
    meta = {
        'id': sid, 'property': prop,
        'needs_to_manifest': readme.strip()[:1500],
        'confirmed': {
            'how': 'scratch worktree of /repo HEAD: demo.py exit 0 without patch, exit %d with patch; pinned suite: %s' % (rc1, tail),
            'at': time.strftime('%Y-%m-%dT%H:%M:%SZ', time.gmtime()),
            'repo_head': sh(['git', '-C', '/repo', 'rev-parse', '--short', 'HEAD'])[1].strip(),
        },
        'detected_by': {},
    }
    json.dump(meta, open(os.path.join(dst, 'meta.json'), 'w'), indent=1)
    return 0
  finally:
    subprocess.run(['git', '-C', '/repo', 'worktree', 'remove', '--force', wt],
                   stdout=subprocess.DEVNULL, stderr=subprocess.DEVNULL)
    shutil.rmtree(wt, ignore_errors=True)


def run(sid, checks, scratch=False):
  """scratch=False: apply to /repo, run, revert (the registered way).  scratch=True: same check
  code against a scratch worktree (VERIF_REPO) with evidence/replays redirected, so that several
  seeds can be tried in parallel during development."""
  dst = os.path.join(SEEDED, sid)
  meta = json.load(open(os.path.join(dst, 'meta.json')))
  checks = checks or [meta['property']]
  env = dict(os.environ)
  if scratch:
    repo = '/tmp/seed_run_%s' % sid
    subprocess.run(['git', '-C', '/repo', 'worktree', 'remove', '--force', repo],
                   stdout=subprocess.DEVNULL, stderr=subprocess.DEVNULL)
    rc, out = sh(['git', '-C', '/repo', 'worktree', 'add', '--detach', repo, 'HEAD'])
    assert rc == 0, out
    env['VERIF_REPO'] = repo
    env['VERIF_EVIDENCE_DIR'] = os.path.join(repo, '_evidence')
    env['VERIF_REPLAY_DIR'] = os.path.join(repo, '_replays')
  else:
    repo = '/repo'
    rc, out = sh(['git', '-C', '/repo', 'status', '--porcelain', '--untracked-files=no'])
    assert out.strip() == '', '/repo has uncommitted changes:\n' + out
  rc, out = sh(['git', '-C', repo, 'apply', os.path.join(dst, 'patch.diff')])
  assert rc == 0, 'patch does not apply: ' + out
  try:
    for c in checks:
      t0 = time.time()
      # evidence written while a seeded change is applied must not replace the committed evidence
      ev = os.path.join(HERE, 'evidence', '%s.json' % c)
      backup = open(ev).read() if (os.path.exists(ev) and not scratch) else None
      rc, out = sh([os.path.join(HERE, 'bin', 'check'), c, '--tier', 'quick'], cwd=HERE, env=env)
      if backup is not None:
        open(ev, 'w').write(backup)
      viol = [l for l in out.splitlines() if l.startswith('VIOLATION')]
      first = ''
      if viol:
        i = out.splitlines().index(viol[0])
        first = '\n'.join(out.splitlines()[i:i + 2])
      meta['detected_by'][c] = {'exit': rc, 'violations': len(viol), 'first': first[:400],
                                'wall_s': round(time.time() - t0, 1),
                                'verdict': 'caught' if rc == 1 and viol else ('missed' if rc == 0 else 'exit %d' % rc)}
      print('%s vs %s: exit=%d violations=%d (%.0fs) %s' % (sid, c, rc, len(viol), time.time() - t0, first[:300]))
      if rc not in (0, 1):
        print(out[-1500:])
  finally:
    if scratch:
      subprocess.run(['git', '-C', '/repo', 'worktree', 'remove', '--force', repo],
                     stdout=subprocess.DEVNULL, stderr=subprocess.DEVNULL)
      shutil.rmtree(repo, ignore_errors=True)
    else:
      sh(['git', '-C', '/repo', 'checkout', '--', '.'])
  json.dump(meta, open(os.path.join(dst, 'meta.json'), 'w'), indent=1)
  return 0


def main():
  if sys.argv[1] == 'confirm':
    return confirm(sys.argv[2], sys.argv[3], sys.argv[4])
  if sys.argv[1] == 'run':
    return run(sys.argv[2], sys.argv[3:])
  if sys.argv[1] == 'srun':
    return run(sys.argv[2], sys.argv[3:], scratch=True)
  if sys.argv[1] == 'runall':
    for sid in sorted(os.listdir(SEEDED)):
      if os.path.exists(os.path.join(SEEDED, sid, 'meta.json')):
        run(sid, sys.argv[2:])
    return 0
  if sys.argv[1] == 'table':
    rows = []
    for sid in sorted(os.listdir(SEEDED)):
      mp = os.path.join(SEEDED, sid, 'meta.json')
      if not os.path.exists(mp):
        continue
      m = json.load(open(mp))
      det = m.get('detected_by', {})
      caught = [c for c, d in sorted(det.items()) if d.get('verdict') == 'caught']
      missed = [c for c, d in sorted(det.items()) if d.get('verdict') == 'missed']
      other = ['%s(%s)' % (c, d.get('verdict')) for c, d in sorted(det.items()) if d.get('verdict') not in ('caught', 'missed')]
      first = ''
      for c in caught:
        first = det[c].get('first', '').splitlines()[-1].strip()[:90] if det[c].get('first') else ''
        break
      rows.append('| %s | %s | %s | %s | %s |' % (sid, m['property'], ', '.join(caught) or '-', ', '.join(missed + other) or '-', first.replace('|', '/')))
    print('| seeded change | property | caught by | not caught by | first violation reported |')
    print('|---|---|---|---|---|')
    print('\n'.join(rows))
    return 0
  print(__doc__)
  return 64


if __name__ == '__main__':
  sys.exit(main())
