"""Metamorphic validation: two programs (or two plans of one program) that must return the
same rows on every database.  Both SQL texts come from the real compiler; z3 decides
equivalence over the symbolic database; models are replayed on real SQLite."""
import time
import traceback
from . import vals as V
from . import e1, db as dbm, real
from .vals import Unsupported


class Side:
  """description of one side of a pair"""

  def __init__(self, text, pred, workflow=False, preds=None, import_root=None, label=''):
    self.text = text
    self.pred = pred
    self.workflow = workflow
    self.preds = preds or [pred]
    self.import_root = import_root
    self.label = label

  def run_real(self, schema, rows):
    """execute this side on real SQLite without going through the model."""
    if self.workflow:
      from . import plan
      con = real.connect()
      try:
        dbm.load_sqlite(con, schema, rows)
        runner = plan.RealRunner(con)
        res = plan.execute(plan.compile_executions(self.text, self.preds), runner)
        return res[self.pred]
      finally:
        con.close()
    c = real.compile_pred(self.text, self.pred, import_root=self.import_root)
    return e1.run_real(c.statements(), schema, rows)

  def build(self, D, strings, range_bound, compaction):
    if self.workflow:
      return e1.WorkflowSide(self.text, self.preds, D, strings, range_bound, compaction, want=self.pred)
    return e1.SqlSide(self.text, self.pred, D, strings, range_bound, compaction,
                      import_root=self.import_root)


def validate_pair(prop_id, a, b, tables, K, strings_list=(), nullable=(), label='', ordered=False,
                  timeout_ms=None, range_bound=3, compaction=True, require_different_sql=False,
                  tie_free_order=False):
  """a, b: Side.  -> result dict"""
  r = {'label': label, 'status': None, 'solver_s': 0.0, 'queries': 0, 'K': K,
       'pred': '%s~%s' % (a.pred, b.pred)}
  t0 = time.time()
  schema = {t: dbm.SCHEMA[t] for t in tables}
  try:
    strings = V.Strings(strings_list)
    D = dbm.SymDB(schema, K, nullable)
    sides = []
    for s in (a, b):
      try:
        sides.append(s.build(D, strings, range_bound, compaction))
      except Unsupported as e:
        r['status'] = 'not_encodable'
        r['why'] = '%s: %s' % (s.label or s.pred, e)
        # outside the model: at least real SQLite must accept what the compiler emitted
        try:
          hdr, _rows = s.run_real(schema, {})
          if hdr and str(hdr[0]).startswith('<missing table'):
            raise RuntimeError('table of the grounded predicate was not written: %s' % hdr[0])
        except AttributeError:
          try:
            e1.run_real(real.compile_pred(s.text, s.pred).statements(), schema, {})
          except real.DIAGNOSTICS:
            pass
          except Exception as e2:  # noqa: BLE001
            r['status'] = 'violation'
            r['kind'] = 'sqlite_error'
            r['replay'] = {'property': prop_id, 'label': label, 'program_a': a.text, 'pred_a': a.pred,
                           'program_b': b.text, 'pred_b': b.pred, 'db': {}, 'schema': schema,
                           'failing_side': s.label, 'error': '%s: %s' % (type(e2).__name__, e2)}
        except real.DIAGNOSTICS:
          pass
        except Exception as e2:  # noqa: BLE001
          r['status'] = 'violation'
          r['kind'] = 'sqlite_error'
          r['replay'] = {'property': prop_id, 'label': label, 'program_a': a.text, 'pred_a': a.pred,
                         'program_b': b.text, 'pred_b': b.pred, 'db': {}, 'schema': schema,
                         'failing_side': s.label, 'error': '%s: %s' % (type(e2).__name__, e2)}
        return r
      except real.DIAGNOSTICS as e:
        r['status'] = 'rejected'
        r['rejected_side'] = 'a' if s is a else 'b'
        r['why'] = '%s: %s: %s' % (s.label or s.pred, type(e).__name__, str(e)[:300])
        return r
      except Exception as e:  # noqa: BLE001
        if type(e).__name__ != 'WriteByPrint':
          r['status'] = 'compiler_crash'
          r['rejected_side'] = 'a' if s is a else 'b'
          r['why'] = traceback.format_exc()[-1200:]
          return r
        r['status'] = 'violation'
        r['kind'] = 'write_by_print'
        r['replay'] = {'property': prop_id, 'label': label, 'program_a': a.text, 'pred_a': a.pred,
                       'program_b': b.text, 'pred_b': b.pred, 'db': {}, 'schema': schema, 'error': str(e)}
        return r
    sa, sb = sides
    r['slots'] = (len(sa.rel.slots), len(sb.rel.slots))
    r['same_sql'] = sa.sql == sb.sql
    if max(r['slots']) > 200:
      # the multiset comparison is quadratic in the slot count: retried on a smaller database
      r['status'] = 'not_encodable'
      r['why'] = 'slot budget exceeded %r' % (r['slots'],)
      return r
    if sa.rel.cols != sb.rel.cols and sorted(sa.rel.cols) == sorted(sb.rel.cols) \
        and len(set(sa.rel.cols)) == len(sa.rel.cols) and not ordered:
      # same named columns in another order (e.g. the rules of a predicate were permuted and
      # the first rule fixes the column order): compare as relations over named columns
      perm = [sb.rel.cols.index(c) for c in sa.rel.cols]
      sb.rel = V.Rel(sa.rel.cols, [(g, [row[i] for i in perm]) for g, row in sb.rel.slots],
                     ordered=sb.rel.ordered, distinct=sb.rel.distinct)
      r['columns_reordered'] = True
    if sa.rel.cols != sb.rel.cols:
      ha, _ = sa.run_real(schema, {})
      hb, _ = sb.run_real(schema, {})
      if ha != hb:
        r['status'] = 'violation'
        r['kind'] = 'columns'
        r['replay'] = {'property': prop_id, 'label': label, 'program_a': a.text, 'pred_a': a.pred,
                       'program_b': b.text, 'pred_b': b.pred, 'db': {}, 'schema': schema,
                       'header_a': ha, 'header_b': hb}
      else:
        r['status'] = 'harness_error'
        r['why'] = 'model columns differ, real headers agree'
      return r
    base = e1.solver()
    if timeout_ms:
      base.set('timeout', timeout_ms)
    base.add(*D.constraints)
    base.add(*[V.as_bool(x) for x in sa.assumptions + sb.assumptions])
    st = e1.Stats()
    base.push()
    base.add(V.as_bool(V.OR(*[g for g, _ in sa.rel.slots])))
    wit = e1.check(base, st)
    base.pop()
    base.push()
    if ordered:
      diff = V.sequence_diff(sa.rel, sb.rel)
    else:
      diff = V.multiset_diff(sa.rel, sb.rel)
    base.add(V.as_bool(diff))
    verdict = e1.check(base, st)
    r['solver_s'] = st.solver_s
    r['queries'] = st.queries
    if verdict == 'unsat':
      r['status'] = 'trivial' if wit == 'unsat' else 'proved'
      if require_different_sql and r['same_sql']:
        r['status'] = 'trivial'
        r['why'] = 'identical SQL text'
    elif verdict == 'unknown':
      r['status'] = 'unknown'
    else:
      m = base.model()
      rows = D.rows_of(m)
      modes = e1.col_modes(sa.rel)
      ha, ra = sa.run_real(schema, rows)
      hb, rb = sb.run_real(schema, rows)
      if r.get('columns_reordered') and sorted(ha) == sorted(hb):
        pr = [hb.index(c) for c in ha]
        rb = [tuple(row[i] for i in pr) for row in rb]
        hb = list(ha)
      same_real, xa, xb = e1.compare_concrete(ra, [tuple(x) for x in rb], modes, ordered=ordered)
      ma = V.concretize_rel(m, sa.rel, strings)
      mb = V.concretize_rel(m, sb.rel, strings)
      ok_a, _, _ = e1.compare_concrete(ra, ma, modes, ordered=ordered and sa.rel.ordered)
      ok_b, _, _ = e1.compare_concrete(rb, mb, modes, ordered=ordered and sb.rel.ordered)
      if not same_real:
        r['status'] = 'violation'
        r['kind'] = 'rows'
        r['replay'] = {'property': prop_id, 'label': label, 'program_a': a.text, 'pred_a': a.pred,
                       'program_b': b.text, 'pred_b': b.pred, 'db': rows, 'schema': schema,
                       'rows_a': xa, 'rows_b': xb, 'header_a': ha, 'header_b': hb,
                       'workflow_a': a.workflow, 'workflow_b': b.workflow,
                       'preds_a': a.preds, 'preds_b': b.preds}
      else:
        r['status'] = 'harness_error'
        r['why'] = 'counterexample does not reproduce on real SQLite (model ok: a=%s b=%s)' % (ok_a, ok_b)
        r['detail'] = {'db': rows, 'real_a': xa, 'real_b': xb, 'model_a': ma, 'model_b': mb,
                       'program_a': a.text, 'program_b': b.text}
    base.pop()
  except Exception:  # noqa: BLE001
    r['status'] = 'harness_error'
    r['why'] = 'exception: ' + traceback.format_exc()[-1500:]
  finally:
    r['wall_s'] = time.time() - t0
  return r
