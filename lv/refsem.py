"""Reference denotation of catalogue programs (lang.py AST) over the symbolic database.

Independent of /repo: reads docs/learn/logica.md's semantics —
  * a rule body is nested iteration over the rows of its atoms (multiplicities multiply),
    `|` and several rules concatenate (multiplicities add);
  * `distinct` keeps one row per key and folds aggregated arguments over the solutions of
    all bodies; aggregating expressions and `~` are evaluated per binding of the outer
    variables, ignore nulls, give null on no solution (Count gives 0);
  * a functional call inside an expression is an extra conjunct binding logica_value;
  * a call of an injectible-only predicate is its body with the arguments substituted;
  * recursion is depth+1 simultaneous applications starting from empty relations.
"""
import itertools
from . import vals as V
from .vals import S, L, R, B, Rel, Unsupported, AND, OR, NOT
from .lang import *  # noqa: F401,F403


class NotReady(Exception):
  pass


class Ref:
  def __init__(self, prog, store, strings, range_bound=3, depths=None, macros=(),
               compaction=True, default_depth=8, list_nothing='null', order_specs=None):
    self.prog = prog
    self.store = store
    self.strings = strings
    self.range_bound = range_bound
    self.assumptions = []
    self.cache = {}
    self.override = {}
    self.depths = depths or {}
    self.default_depth = default_depth
    self.macros = set(macros)
    self.fresh = itertools.count()
    self.compaction = compaction
    self.list_nothing = list_nothing   # 'null' (documented) | 'empty' (known SQLite deviation)
    self.sccs = self._sccs()
    self.iteration_trace = {}
    self.iter_cache = {}
    self.iterations_override = {}
    self.scope = frozenset()
    self.order_specs = order_specs or {}
    self.cur_guard = True

  # ------------------------------------------------------------ dependency analysis
  def _deps(self, pred):
    acc = set()

    def walk(n):
      if isinstance(n, (Atom, ValAtom, Call)):
        acc.add(n.pred)
      if isinstance(n, Node):
        for c in children(n):
          walk(c)
    for r in self.prog.rules_of(pred):
      for a in r.args:
        walk(a)
      for k, v in r.nargs:
        if v is not None:
          walk(v)
      if r.value is not None:
        walk(r.value)
      if r.body is not None:
        walk(r.body)
    return acc

  def _sccs(self):
    preds = self.prog.preds()
    deps = {p: self._deps(p) & set(preds) for p in preds}
    reach = {p: set(deps[p]) for p in preds}
    changed = True
    while changed:
      changed = False
      for p in preds:
        for q in list(reach[p]):
          n = reach[q] - reach[p]
          if n:
            reach[p] |= n
            changed = True
    out = {}
    for p in preds:
      if p in reach[p]:
        out[p] = sorted(q for q in preds if q in reach[p] and p in reach[q])
    return out

  # ------------------------------------------------------------ relations
  def columns(self, pred):
    if pred in self.prog.ext:
      return list(self.prog.ext[pred])
    rules = self.prog.rules_of(pred)
    if not rules:
      raise Unsupported('unknown predicate ' + pred)
    r = rules[0]
    cols = ['col%d' % i for i in range(len(r.args))] + [k for k, _ in r.nargs]
    if r.value is not None:
      cols.append('logica_value')
    return cols

  def relation(self, pred):
    if pred in self.override:
      return self.override[pred]
    if pred in self.cache:
      return self.cache[pred]
    if pred in self.prog.ext:
      rel = self.store[pred]
    elif pred in self.sccs:
      rel = self._recursive(pred)
    else:
      rel = self.eval_pred(pred)
    if pred in self.order_specs:
      keys, limit = self.order_specs[pred]
      rel = V.order_limit_rel(rel, [(rel.col(c), d) for c, d in keys], limit, self.assumptions)
    self.cache[pred] = rel
    return rel

  def depth_of(self, scc):
    depth = None
    for p in scc:
      if p in self.depths:
        depth = self.depths[p] if depth is None else max(depth, self.depths[p])
    return self.default_depth if depth is None else depth

  def _recursive(self, pred):
    scc = self.sccs[pred]
    n = self.iterations_override.get(pred)
    if n is None:
      n = self.depth_of(scc) + 1
    return self.iterate(scc, n)[pred]

  def iterate(self, scc, n):
    """n simultaneous applications of the rules of scc starting from empty relations."""
    key = (tuple(scc), n)
    if key in self.iter_cache:
      return self.iter_cache[key]
    rels = {p: Rel(self.columns(p), [], distinct=True) for p in scc}
    for it in range(n):
      saved = dict(self.override)
      self.override.update(rels)
      # predicates outside the scc that depend on it must not be cached across iterations
      cache_saved = dict(self.cache)
      try:
        new = {p: self.eval_pred(p) for p in scc}
      finally:
        self.override = saved
        self.cache = cache_saved
      # an ordered/limited member of the component is ordered/limited in every generation
      for q in scc:
        if q in self.order_specs:
          keys, limit = self.order_specs[q]
          new[q] = V.order_limit_rel(new[q], [(new[q].col(c), d) for c, d in keys], limit, self.assumptions)
      rels = new
      self.iter_cache[(tuple(scc), it + 1)] = rels
    self.iter_cache[key] = rels
    return rels

  def relation_after(self, pred, n):
    """the relation of a recursive predicate after exactly n applications."""
    return self.iterate(self.sccs[pred], n)[pred]

  def eval_pred(self, pred):
    rules = self.prog.rules_of(pred)
    cols = self.columns(pred)
    distinct = [r.distinct or self._has_agg(r) for r in rules]
    if any(distinct) and not all(distinct):
      raise Unsupported('inconsistent distinct')
    rows = []   # (guard, [head values or ('agg', op, payload)])
    for r in rules:
      for g, bind in self.rule_solutions(r):
        self.cur_guard = g
        rows.append((g, self.head_values(r, bind)))
      self.cur_guard = True
    if not any(distinct):
      return Rel(cols, [(g, vals) for g, vals in rows])
    # shape and operators come from the head (all rules of a predicate agree)
    r0 = rules[0]
    head_items = [None] * len(r0.args) + [v for _, v in r0.nargs] + ([r0.value] if r0.value is not None else [])
    shape = [isinstance(v, Agg) for v in head_items]
    ops = [v.op if isinstance(v, Agg) else None for v in head_items]
    key_idx = [i for i, a in enumerate(shape) if not a]
    if not key_idx:
      # no keys: Logica compiles this without GROUP BY, so there is exactly one row, also
      # when no body has a solution (aggregates over nothing)
      members = [(g, vals) for g, vals in rows]
      return Rel(cols, [(True, self._fold(shape, ops, None, members))], distinct=True)
    if not rows:
      return Rel(cols, [], distinct=True)
    keys = [[vals[i] for i in key_idx] for g, vals in rows]
    groups = V.group_slots([(g, vals) for g, vals in rows], keys, self.compaction)
    slots = []
    for rep, keyvals, members in groups:
      slots.append((rep, self._fold(shape, ops, dict(zip(key_idx, keyvals)), members)))
    return Rel(cols, slots, distinct=True)

  def _has_agg(self, r):
    return any(isinstance(v, Agg) for _, v in r.nargs) or isinstance(r.value, Agg)

  def _fold(self, shape, ops, keyvals, members):
    out = []
    for i, is_agg in enumerate(shape):
      if not is_agg:
        out.append(keyvals[i])
        continue
      ms = [(g, vals[i][2]) for g, vals in members]
      out.append(self.aggregate(ops[i], ms))
    return out

  def aggregate(self, op, ms):
    """ms: [(guard, payload)], payload a value or (arg, value) for ArgMin/ArgMax."""
    if op == 'Sum':
      return V.agg_sum(ms)
    if op == 'Min':
      return V.agg_minmax(ms, True)
    if op == 'Max':
      return V.agg_minmax(ms, False)
    if op == 'Count':
      return V.agg_count_distinct(ms)
    if op == 'List':
      l = V.agg_list(ms)
      if self.list_nothing == 'null':
        l.null = NOT(OR(*[g for g, _ in ms]))   # docs: aggregating nothing gives null
      return l
    if op == 'Set':
      return V.agg_set(ms)
    import re as _re
    mk = _re.match(r'Arg(Min|Max)([1-9])$', op)
    if mk:
      # wrapper idiom ArgMax2(x) = ArgMaxK(x, 2): the k best arguments in value order
      self.assumptions.append(V.tie_free([(g, p[1]) for g, p in ms]))
      return V.agg_argbest([(g, p[0], p[1]) for g, p in ms], mk.group(1) == 'Min', int(mk.group(2)))
    if op in ('ArgMin', 'ArgMax'):
      self.assumptions.append(V.tie_free([(g, p[1]) for g, p in ms]))
      l = V.agg_argbest([(g, p[0], p[1]) for g, p in ms], op == 'ArgMin', 1)
      return V.list_element(l, S(0, 'int'))
    raise Unsupported('aggregate ' + op)

  # ------------------------------------------------------------ rules
  def rule_solutions(self, r):
    extra = []
    head_exprs = {}
    # functional calls in head expressions are conjuncts of the body
    args = [self.lift(a, extra) for a in r.args]
    nargs = []
    for k, v in r.nargs:
      if v is None:
        nargs.append((k, Var(k)))
      elif isinstance(v, Agg):
        nargs.append((k, Agg(v.op, self.lift(v.e, extra))))
      else:
        nargs.append((k, self.lift(v, extra)))
    value = r.value
    if isinstance(value, Agg):
      value = Agg(value.op, self.lift(value.e, extra))
    elif value is not None:
      value = self.lift(value, extra)
    r._norm_head = (args, nargs, value)
    items = list(extra)
    if r.body is not None:
      items.append(self.norm(r.body))
    head_vars = set()
    for a in args:
      head_vars |= self.outer_free(a, ())
    for k, v in nargs:
      head_vars |= self.outer_free(v.e if isinstance(v, Agg) else v, ())
    if value is not None:
      head_vars |= self.outer_free(value.e if isinstance(value, Agg) else value, ())
    self.scope = frozenset(head_vars)
    try:
      sols, _ = self.solve(Conj(items), [(True, {})], frozenset())
    finally:
      self.scope = frozenset()
    return sols

  def head_values(self, r, bind):
    args, nargs, value = r._norm_head
    out = [self.ev(a, bind) for a in args]
    # named arguments are columns *by name*: rules of one predicate may list them in any
    # order; the column order is the one of the first rule
    by_name = dict(nargs)
    order = [k for k, _ in self.prog.rules_of(r.pred)[0].nargs]
    if sorted(order) != sorted(by_name):
      raise Unsupported('rules of %s have different named arguments' % r.pred)
    for k in order:
      out.append(self.head_arg(by_name[k], bind))
    if value is not None:
      out.append(self.head_arg(value, bind))
    return out

  def head_arg(self, v, bind):
    if isinstance(v, Agg):
      if isinstance(v.e, Arrow):
        return ('agg', v.op, (V.to_S(self.ev(v.e.a, bind)), V.to_S(self.ev(v.e.v, bind))))
      return ('agg', v.op, V.to_S(self.ev(v.e, bind)))
    return V.to_S(self.ev(v, bind))

  # ------------------------------------------------------------ normalisation
  def lift(self, e, acc):
    """replace functional calls by fresh variables, appending the defining atoms."""
    if isinstance(e, Call):
      args = [self.lift(a, acc) for a in e.args]
      nargs = [(k, self.lift(v, acc) if v is not None else None) for k, v in e.nargs]
      x = Var('call_%d' % next(self.fresh))
      acc.append(Atom(e.pred, args, nargs + [('logica_value', x)]))
      return x
    if isinstance(e, AggE):
      inner = []
      ee = self.lift(e.e, inner)
      body = self.norm(e.body) if e.body is not None else Conj([])
      return AggE(e.op, ee, Conj(inner + [body]), e.style)
    if isinstance(e, Paren):
      return self.lift(e.e, acc)
    if isinstance(e, Node):
      return mapn(e, lambda c: self.lift(c, acc))
    return e

  def norm(self, p):
    if isinstance(p, Atom):
      acc = []
      args = [self.lift(a, acc) for a in p.args]
      nargs = [(k, self.lift(v, acc) if v is not None else Var(k)) for k, v in p.nargs]
      return Conj(acc + [Atom(p.pred, args, nargs)])
    if isinstance(p, ValAtom):
      acc = []
      args = [self.lift(a, acc) for a in p.args]
      nargs = [(k, self.lift(v, acc) if v is not None else Var(k)) for k, v in p.nargs]
      val = self.lift(p.value, acc)
      return Conj(acc + [Atom(p.pred, args, nargs + [('logica_value', val)])])
    if isinstance(p, Conj):
      return Conj([self.norm(x) for x in p.items])
    if isinstance(p, Disj):
      return Disj([self.norm(x) for x in p.items])
    if isinstance(p, Neg):
      return Neg(self.norm(p.p))
    if isinstance(p, Impl):
      return Neg(Conj([self.norm(p.a), Neg(self.norm(p.b))]))
    if isinstance(p, InP):
      acc = []
      e = self.lift(p.e, acc)
      l = self.lift(p.l, acc)
      return Conj(acc + [InP(e, l)])
    if isinstance(p, (Cmp, BAnd, BOr, BNot, IsNull, InB)):
      acc = []
      q = self.lift(p, acc)
      return Conj(acc + [q])
    raise Unsupported('proposition %r' % (p,))

  # ------------------------------------------------------------ solving
  def flatten(self, p):
    if isinstance(p, Conj):
      out = []
      for x in p.items:
        out.extend(self.flatten(x))
      return out
    return [p]

  @staticmethod
  def deferred(p):
    def has(n):
      if isinstance(n, (AggE, Neg)):
        return True
      return isinstance(n, Node) and any(has(c) for c in children(n))
    return has(p)

  def needs(self, p, bound):
    need = self._needs(p, bound)
    if self.deferred(p):
      # variables inside aggregating expressions / negations that are visible in the
      # enclosing scope are correlated, not local: they must be bound first
      inner = set(variables(p)) - self.outer_free(p, bound)
      need = set(need) | (inner & self.scope)
    return need

  def _needs(self, p, bound):
    """variables that must be bound before p can be processed (None = process now)."""
    def free(e):
      return set(variables(e))
    if isinstance(p, Atom) and p.pred in self.macros:
      need = set()
      for a in p.args:
        need |= free(a)
      for k, v in p.nargs:
        if k == 'logica_value' and isinstance(v, Var):
          continue
        need |= free(v)
      return need
    if isinstance(p, Atom):
      need = set()
      for a in list(p.args) + [v for _, v in p.nargs]:
        if isinstance(a, Var):
          continue
        need |= free(a)
      return need
    if isinstance(p, Cmp):
      if p.op in ('==', '='):
        if isinstance(p.a, Var) and p.a.name not in bound:
          return self.outer_free(p.b, bound)
        if isinstance(p.b, Var) and p.b.name not in bound:
          return self.outer_free(p.a, bound)
      return self.outer_free(p.a, bound) | self.outer_free(p.b, bound)
    if isinstance(p, InP):
      need = self.outer_free(p.l, bound)
      if not isinstance(p.e, Var):
        need |= self.outer_free(p.e, bound)
      return need
    if isinstance(p, (Neg, Disj)):
      return set()
    return self.outer_free(p, bound)

  def outer_free(self, e, bound):
    """free variables of e that are not local to an aggregating expression.  Variables
    inside an AggE that are not yet bound are treated as local to it."""
    acc = set()

    def walk(n, inside):
      if isinstance(n, Var):
        if not inside:
          acc.add(n.name)
        return
      if isinstance(n, AggE):
        for c in children(n):
          walk(c, True)
        return
      if isinstance(n, Node):
        for c in children(n):
          walk(c, inside)
    walk(e, False)
    return acc

  def solve(self, p, sols, bound):
    if isinstance(p, Conj):
      pending = self.flatten(p)
      saved_scope = self.scope
      sib = set()
      for item in pending:
        sib |= self.outer_free(item, bound)
      self.scope = self.scope | sib
      try:
        return self._solve_conj(pending, sols, bound)
      finally:
        self.scope = saved_scope
    return self.solve_item(p, sols, bound)

  def _solve_conj(self, pending, sols, bound):
    if True:
      while pending:
        progressed = False
        for tier in (False, True):
          for i, item in enumerate(pending):
            if self.deferred(item) != tier:
              continue
            if self.needs(item, bound) <= bound:
              sols, bound = self.solve_item(item, sols, bound)
              pending.pop(i)
              progressed = True
              break
          if progressed:
            break
        if not progressed:
          raise Unsupported('cannot schedule conjuncts %r with %r bound' % (pending, sorted(bound)))
      return sols, bound

  def solve_item(self, p, sols, bound):
    if isinstance(p, Conj):
      return self.solve(p, sols, bound)
    if isinstance(p, Disj):
      out = []
      bounds = []
      for x in p.items:
        s2, b2 = self.solve(x, sols, bound)
        out.extend(s2)
        V.check_budget(len(out))
        bounds.append(b2)
      nb = bounds[0]
      for b in bounds[1:]:
        nb = nb & b
      return out, nb
    if isinstance(p, Atom):
      return self.solve_atom(p, sols, bound)
    if isinstance(p, Neg):
      out = []
      for g, bind in sols:
        inner, _ = self.solve(p.p, [(True, bind)], bound)
        ex = OR(*[g2 for g2, _ in inner])
        gg = AND(g, NOT(ex))
        if gg is not False:
          out.append((gg, bind))
      return out, bound
    if isinstance(p, Cmp) and p.op in ('==', '='):
      if isinstance(p.a, Var) and p.a.name not in bound:
        return [(g, self.extend(b, p.a.name, self.ev(p.b, b))) for g, b in sols], bound | {p.a.name}
      if isinstance(p.b, Var) and p.b.name not in bound:
        return [(g, self.extend(b, p.b.name, self.ev(p.a, b))) for g, b in sols], bound | {p.b.name}
    if isinstance(p, InP):
      out = []
      newbound = bound
      for g, bind in sols:
        l = self.ev(p.l, bind)
        if not isinstance(l, L):
          raise Unsupported('in over non-list')
        for gi, x in l.items:
          if isinstance(p.e, Var) and p.e.name not in bound:
            gg = AND(g, gi, NOT(l.null))
            if gg is not False:
              out.append((gg, self.extend(bind, p.e.name, x)))
            newbound = bound | {p.e.name}
          else:
            c = V.cmp_sql('=', self.ev(p.e, bind), x).true()
            gg = AND(g, gi, NOT(l.null), c)
            if gg is not False:
              out.append((gg, bind))
      return out, newbound
    # plain condition
    out = []
    for g, bind in sols:
      self.cur_guard = AND(self.outer_guard(), g)
      c = V.to_B(self.ev(p, bind)).true()
      gg = AND(g, c)
      if gg is not False:
        out.append((gg, bind))
    return out, bound

  def outer_guard(self):
    return True

  @staticmethod
  def extend(bind, name, val):
    b = dict(bind)
    b[name] = V.to_S(val)
    return b

  def solve_atom(self, p, sols, bound):
    if p.pred in self.macros:
      return self.solve(self.expand_macro(p), sols, bound)
    if p.pred == 'nil':
      # the built-in empty predicate (any arity)
      nb = set(bound)
      for a in list(p.args) + [v for _, v in p.nargs]:
        if isinstance(a, Var):
          nb.add(a.name)
      return [], frozenset(nb)
    rel = self.relation(p.pred)
    pairs = []
    for i, a in enumerate(p.args):
      name = 'col%d' % i
      if name not in rel.cols:
        raise Unsupported('%s has no column %s' % (p.pred, name))
      pairs.append((rel.col(name), a))
    for k, v in p.nargs:
      if k not in rel.cols:
        raise Unsupported('%s has no column %s' % (p.pred, k))
      pairs.append((rel.col(k), v))
    out = []
    newbound = set(bound)
    for g, bind in sols:
      for g2, row in rel.slots:
        gg = AND(g, g2)
        if gg is False:
          continue
        b = bind
        conds = []
        for ci, a in pairs:
          if isinstance(a, Var) and a.name not in b:
            b = self.extend(b, a.name, row[ci])
          else:
            conds.append(V.cmp_sql('=', self.ev(a, b), row[ci]).true())
        gg = AND(gg, *conds)
        if gg is not False:
          out.append((gg, b))
      V.check_budget(len(out))
    for ci, a in pairs:
      if isinstance(a, Var):
        newbound.add(a.name)
    return out, frozenset(newbound)

  def expand_macro(self, p):
    rules = self.prog.rules_of(p.pred)
    if len(rules) != 1:
      raise Unsupported('macro with several rules')
    r = rules[0]
    n = next(self.fresh)
    m = {v: 'm%d_%s' % (n, v) for v in rule_vars(r)}
    rr = rename_rule_vars(r, m)
    items = []
    by_col = {}
    for i, a in enumerate(rr.args):
      by_col['col%d' % i] = a
    for k, v in rr.nargs:
      by_col[k] = v if v is not None else Var(m.get(k, k))
    if rr.value is not None:
      by_col['logica_value'] = rr.value
    call = {}
    for i, a in enumerate(p.args):
      call['col%d' % i] = a
    for k, v in p.nargs:
      call[k] = v
    # formal parameters are variables: bind them to the actual arguments first
    post = []
    for col, actual in call.items():
      if col not in by_col:
        raise Unsupported('macro %s has no argument %s' % (p.pred, col))
      formal = by_col[col]
      if isinstance(formal, Var):
        items.append(Cmp('==', formal, actual))
      else:
        post.append(Cmp('==', actual, formal))
    if rr.body is not None:
      items.append(self.norm(rr.body))
    acc = []
    post = [self.lift(c, acc) for c in post]
    return Conj(items + acc + post)

  # ------------------------------------------------------------ expressions
  def ev(self, e, bind):
    if isinstance(e, Var):
      if e.name not in bind:
        raise Unsupported('unbound variable %s' % e.name)
      return bind[e.name]
    if isinstance(e, Num):
      return S(e.n, 'int')
    if isinstance(e, Str):
      return S(self.strings.id(e.s), 'str')
    if isinstance(e, Null):
      return V.NULL
    if isinstance(e, Paren):
      return self.ev(e.e, bind)
    if isinstance(e, Bin):
      a = V.to_S(self.ev(e.a, bind))
      b = V.to_S(self.ev(e.b, bind))
      x, y = V._num(a), V._num(b)
      if e.op == '+':
        v = x + y
      elif e.op == '-':
        v = x - y
      elif e.op == '*':
        if not V.isc(x) and not V.isc(y):
          raise Unsupported('non-linear multiplication')
        v = x * y
      elif e.op == '%' and V.isc(y) and int(y) != 0:
        v = V.trunc_rem(x, y)      # documented as SQL MOD: the sign follows the dividend
      else:
        raise Unsupported('operator ' + e.op)
      return S(v, 'int', OR(a.null, b.null))
    if isinstance(e, Builtin):
      xs = [V.to_S(self.ev(a, bind)) for a in e.args]
      if e.name in ('Greatest', 'Least'):
        acc = xs[0]
        for x in xs[1:]:
          better = V.LT(V._num(acc), V._num(x)) if e.name == 'Greatest' else V.LT(V._num(x), V._num(acc))
          acc = S(V.ITE(better, V._num(x), V._num(acc)), 'int', OR(acc.null, x.null))
        return acc
      raise Unsupported('builtin ' + e.name)
    if isinstance(e, UMinus):
      a = V.to_S(self.ev(e.e, bind))
      return S(0 - V._num(a), 'int', a.null)
    if isinstance(e, ListE):
      return L([(True, V.to_S(self.ev(x, bind))) for x in e.items], 'seq')
    if isinstance(e, RecE):
      return R({k: V.to_S(self.ev(v, bind)) for k, v in e.fields})
    if isinstance(e, Field):
      r = self.ev(e.e, bind)
      if not isinstance(r, R) or e.name not in r.fields:
        raise Unsupported('field access')
      f = r.fields[e.name]
      return f if r.null is False else V.ite_val(NOT(r.null), f, V.null_like(f))
    if isinstance(e, Elem):
      idx = V.to_S(self.ev(e.idx, bind))
      self.assumptions.append(OR(idx.null, V.LE(0, idx.v)))   # negative index: engine error, outside the claim
      return V.list_element(self.ev(e.e, bind), idx)
    if isinstance(e, Size):
      return V.list_size(self.ev(e.e, bind))
    if isinstance(e, If):
      c = V.to_B(self.ev(e.cond, bind)).true()
      return V.ite_val(c, V.to_S(self.ev(e.a, bind)), V.to_S(self.ev(e.b, bind)))
    if isinstance(e, RangeE):
      n = V.to_S(self.ev(e.e, bind))
      self.assumptions.append(OR(n.null, V.LE(n.v, self.range_bound)))
      return L([(AND(NOT(n.null), V.LT(i, n.v)), S(i, 'int')) for i in range(self.range_bound)], 'seq')
    if isinstance(e, AggE):
      inner, _ = self.solve(e.body if e.body is not None else Conj([]), [(True, bind)],
                            frozenset(bind))
      if isinstance(e.e, Arrow):
        ms = [(g, (V.to_S(self.ev(e.e.a, b)), V.to_S(self.ev(e.e.v, b)))) for g, b in inner]
      else:
        ms = [(g, V.to_S(self.ev(e.e, b))) for g, b in inner]
      return self.aggregate(e.op, ms)
    if isinstance(e, Cmp):
      op = '=' if e.op in ('==', '=') else e.op
      return V.cmp_sql(op, self.ev(e.a, bind), self.ev(e.b, bind))
    if isinstance(e, BAnd):
      return V.b_and(V.to_B(self.ev(e.a, bind)), V.to_B(self.ev(e.b, bind)))
    if isinstance(e, BOr):
      return V.b_or(V.to_B(self.ev(e.a, bind)), V.to_B(self.ev(e.b, bind)))
    if isinstance(e, BNot):
      return V.b_not(V.to_B(self.ev(e.a, bind)))
    if isinstance(e, IsNull):
      return B(V.to_S(self.ev(e.e, bind)).null, False)
    if isinstance(e, InB):
      return V.in_list(V.to_S(self.ev(e.e, bind)), self.ev(e.l, bind))
    if isinstance(e, Call):
      raise Unsupported('call not lifted')
    raise Unsupported('expression %r' % (e,))
