"""Structural well-formedness of emitted SQL (property C09): a small, dialect-tolerant scanner.

check(sql, dialect) -> list of problems (empty = well-formed):
  * string literals / quoted identifiers / comments terminate, brackets balance (outside them);
  * every `alias.column` refers to a table alias introduced by a FROM clause of the same or an
    enclosing SELECT (parenthesis nesting), `dataset.table` inside FROM clauses and in
    DROP/CREATE/INSERT headers excepted;
  * a table defined by WITH is not read before its definition;
  * no compiler-internal placeholder (unexpanded %s / {0} / {name} / ${flag}) is left.
The scanner is calibrated on every program of integration_tests/ and examples/ (tools/c09_calibrate.py).
"""
import re

KEYWORDS = set('''SELECT FROM WHERE GROUP BY ORDER LIMIT UNION ALL AS ON JOIN LEFT RIGHT INNER OUTER CROSS WITH
RECURSIVE AND OR NOT IN IS NULL CASE WHEN THEN ELSE END DISTINCT CREATE TABLE DROP IF EXISTS INSERT INTO VALUES
ATTACH DATABASE HAVING OVER PARTITION ROWS BETWEEN PRECEDING CURRENT ROW UNBOUNDED FOLLOWING ASC DESC UNNEST
LATERAL OFFSET ORDINALITY TEMP TEMPORARY FUNCTION RETURNS LANGUAGE REPLACE TYPE STRUCT ARRAY CAST TRY_CAST
INTERVAL EXCEPT INTERSECT USING NATURAL FULL SET VIEW OR MATERIALIZED'''.split())


class Tok(object):
  __slots__ = ('kind', 'text', 'pos')

  def __init__(self, kind, text, pos):
    self.kind = kind
    self.text = text
    self.pos = pos

  def __repr__(self):
    return '%s:%r' % (self.kind, self.text)


def tokenize(sql, dialect):
  """-> (tokens, problems).  kinds: id, num, str, qid (quoted identifier), op"""
  toks = []
  problems = []
  i = 0
  n = len(sql)
  backslash = dialect in ('bigquery', 'databricks', 'clickhouse', 'duckdb')   # escapes inside '...'
  dq_is_string = dialect in ('bigquery', 'databricks')
  while i < n:
    c = sql[i]
    if c.isspace():
      i += 1
    elif sql.startswith('--', i):
      j = sql.find('\n', i)
      i = n if j < 0 else j + 1
    elif sql.startswith('/*', i):
      j = sql.find('*/', i + 2)
      if j < 0:
        problems.append('unterminated /* comment at %d' % i)
        break
      i = j + 2
    elif c == "'" or (c == '"') or c == '`' or (c in 'EeRrBb' and i + 1 < n and sql[i + 1] in '\'"' and (i == 0 or not (sql[i - 1].isalnum() or sql[i - 1] == '_'))):
      start = i
      if c not in '\'"`':
        prefix = c.upper()
        i += 1
        c = sql[i]
      else:
        prefix = ''
      q = c
      triple = sql.startswith(q * 3, i) and q != '`'
      qlen = 3 if triple else 1
      j = i + qlen
      esc = (backslash or prefix == 'E' or (q == '"' and dq_is_string) or triple) and prefix != 'R'
      closed = False
      while j < n:
        if esc and sql[j] == '\\':
          j += 2
          continue
        if sql.startswith(q * qlen, j):
          if qlen == 1 and j + 1 < n and sql[j + 1] == q and q != '`':
            j += 2       # doubled quote
            continue
          closed = True
          j += qlen
          break
        j += 1
      if not closed:
        problems.append('unterminated %s literal starting at %d: %r' % (q, start, sql[start:start + 30]))
        break
      kind = 'str' if (q == "'" or (q == '"' and dq_is_string)) else 'qid'
      toks.append(Tok(kind, sql[start:j], start))
      i = j
    elif c.isalpha() or c == '_':
      j = i + 1
      while j < n and (sql[j].isalnum() or sql[j] == '_'):
        j += 1
      toks.append(Tok('id', sql[i:j], i))
      i = j
    elif c.isdigit():
      j = i + 1
      while j < n and (sql[j].isalnum() or sql[j] == '.'):
        j += 1
      toks.append(Tok('num', sql[i:j], i))
      i = j
    elif c == '$' and sql.startswith('${', i):
      j = sql.find('}', i)
      toks.append(Tok('placeholder', sql[i:(j + 1 if j > 0 else i + 2)], i))
      i = j + 1 if j > 0 else i + 2
    else:
      two = sql[i:i + 2]
      if two in ('::', '<=', '>=', '!=', '<>', '||', '->', '=>', ':='):
        toks.append(Tok('op', two, i))
        i += 2
      else:
        toks.append(Tok('op', c, i))
        i += 1
  return toks, problems


OPEN = {'(': ')', '[': ']', '{': '}'}
CLOSE = {')': '(', ']': '[', '}': '{'}


class Region(object):
  """one parenthesised region (or the statement itself)"""

  def __init__(self, parent, open_idx):
    self.parent = parent
    self.open_idx = open_idx
    self.aliases = set()
    self.refs = []          # (alias, token index)
    self.in_from = False
    self.in_order = False
    self.col_aliases = set()
    self.is_select = False


def check(sql, dialect='sqlite', with_names_known=None):
  problems = []
  toks, p0 = tokenize(sql, dialect)
  problems += p0
  if p0:
    return problems
  # ---- brackets
  stack = []
  for t in toks:
    if t.kind == 'op' and t.text in OPEN:
      stack.append(t)
    elif t.kind == 'op' and t.text in CLOSE:
      if not stack or stack[-1].text != CLOSE[t.text]:
        problems.append('bracket %r at %d matches nothing' % (t.text, t.pos))
        return problems
      stack.pop()
  if stack:
    problems.append('bracket %r at %d is never closed' % (stack[-1].text, stack[-1].pos))
    return problems
  # ---- placeholders
  for k, t in enumerate(toks):
    if t.kind == 'placeholder':
      problems.append('unexpanded parameter %s' % t.text)
    if t.kind == 'op' and t.text == '%' and k + 1 < len(toks) and toks[k + 1].kind == 'id' and toks[k + 1].text in ('s', 'd', 'r') \
       and toks[k + 1].pos == t.pos + 1:
      problems.append('format placeholder %%%s left in the SQL at %d' % (toks[k + 1].text, t.pos))
    if t.kind == 'op' and t.text == '{' and k + 2 < len(toks) and toks[k + 2].kind == 'op' and toks[k + 2].text == '}' \
       and toks[k + 1].kind in ('id', 'num') and dialect != 'duckdb':
      problems.append('format placeholder {%s} left in the SQL at %d' % (toks[k + 1].text, t.pos))
    if t.kind == 'op' and t.text == '{' and k + 1 < len(toks) and toks[k + 1].kind == 'op' and toks[k + 1].text == '}' and dialect != 'duckdb':
      problems.append('format placeholder {} left in the SQL at %d' % t.pos)
  # ---- statements: split on top-level ';'
  depth = 0
  stmts = [[]]
  for t in toks:
    if t.kind == 'op' and t.text in OPEN:
      depth += 1
    elif t.kind == 'op' and t.text in CLOSE:
      depth -= 1
    if t.kind == 'op' and t.text == ';' and depth == 0:
      stmts.append([])
    else:
      stmts[-1].append(t)
  for st in stmts:
    if st:
      problems += check_statement(st, dialect)
  return problems


def kw(t, *words):
  return t.kind == 'id' and t.text.upper() in words


def check_statement(toks, dialect):
  problems = []
  first = toks[0].text.upper() if toks[0].kind == 'id' else ''
  if first in ('ATTACH', 'DROP', 'DETACH', 'PRAGMA', 'SET', 'USE', 'COPY', 'BEGIN', 'COMMIT', 'INSTALL', 'LOAD'):
    return problems
  # skip the header of CREATE ... AS / INSERT INTO ... : dataset.table there is not a column reference
  start = 0
  if first in ('CREATE', 'INSERT'):
    if first == 'CREATE' and any(kw(t, 'FUNCTION', 'TYPE') for t in toks[:6]):
      return problems      # function / type definitions have their own parameter scopes
    for k, t in enumerate(toks):
      if kw(t, 'SELECT', 'WITH'):
        start = k
        break
    else:
      return problems
  n = len(toks)
  # ---- WITH tables are defined before they are read
  with_all = set()
  for k in range(start, n - 3):
    if toks[k].kind in ('id', 'qid') and kw(toks[k + 1], 'AS') and toks[k + 2].text == '(' and kw(toks[k + 3], 'SELECT', 'WITH', 'VALUES') \
       and k >= 1 and (kw(toks[k - 1], 'WITH', 'RECURSIVE') or toks[k - 1].text == ','):
      with_all.add(toks[k].text)
  defined = set()
  for k in range(start, n):
    t = toks[k]
    if t.kind not in ('id', 'qid') or t.text not in with_all:
      continue
    prv = toks[k - 1] if k >= 1 else None
    nxt = toks[k + 1] if k + 1 < n else None
    if nxt is not None and kw(nxt, 'AS') and k + 2 < n and toks[k + 2].text == '(' and prv is not None and \
       (kw(prv, 'WITH', 'RECURSIVE') or prv.text == ','):
      defined.add(t.text)      # a recursive CTE may read itself: defined from here on
    elif prv is not None and (kw(prv, 'FROM', 'JOIN') or prv.text == ',') and t.text not in defined and \
        not (nxt is not None and nxt.text in ('.', '(')):
      problems.append('WITH table %s is read at offset %d before it is defined' % (t.text, t.pos))
  # names the compiler generates for WITH tables (t_<n>_<Predicate>) must be defined in the statement
  for k in range(start, n):
    t = toks[k]
    if t.kind == 'id' and re.match(r't_\d+_\w+$', t.text) and t.text not in with_all:
      prv = toks[k - 1] if k >= 1 else None
      nxt = toks[k + 1] if k + 1 < n else None
      if prv is not None and (kw(prv, 'FROM', 'JOIN') or prv.text == ',') and nxt is not None and kw(nxt, 'AS'):
        problems.append('WITH table %s is read at offset %d but defined nowhere in the statement' % (t.text, t.pos))
  return problems + _resolve(toks, start, dialect, with_all)


def _resolve(toks, start, dialect, with_all):
  """second, self-contained pass that builds the region tree with alias sets and reference lists
  and resolves the references (kept separate from the WITH-order pass above for clarity)."""
  problems = []
  root = Region(None, -1)
  cur = root
  regions = [root]
  n = len(toks)
  k = start
  pending_alias_for_parent = None
  while k < n:
    t = toks[k]
    prv = toks[k - 1] if k >= 1 else None
    nxt = toks[k + 1] if k + 1 < n else None
    if t.kind == 'op' and t.text in OPEN:
      r = Region(cur, k)
      # function-call parentheses inherit the clause state of their parent; sub-selects reset it
      r.in_from = False
      regions.append(r)
      cur = r
      k += 1
      continue
    if t.kind == 'op' and t.text in CLOSE:
      cur = cur.parent or root
      k += 1
      continue
    if kw(t, 'SELECT'):
      cur.in_from = False
      cur.in_order = False
    elif kw(t, 'FROM', 'JOIN'):
      cur.in_from = True
      cur.in_order = False
    elif kw(t, 'WHERE', 'GROUP', 'ORDER', 'LIMIT', 'HAVING', 'UNION', 'ON', 'WINDOW', 'EXCEPT', 'INTERSECT'):
      cur.in_from = False
      cur.in_order = kw(t, 'GROUP', 'ORDER', 'HAVING')
    if t.kind in ('id', 'qid') and not (t.kind == 'id' and t.text.upper() in KEYWORDS):
      if prv is not None and kw(prv, 'AS') and cur.in_from:
        cur.aliases.add(t.text)
        k += 1
        continue
      if prv is not None and kw(prv, 'AS'):
        cur.col_aliases.add(t.text)     # output column: may be referred to by ORDER BY / GROUP BY
      if cur.in_from and nxt is not None and nxt.text == '.' and k + 2 < n and toks[k + 2].kind in ('id', 'qid') and \
         (prv is None or prv.text == ',' or kw(prv, 'FROM', 'JOIN')):
        last = toks[k + 2].text
        k += 3
        while k + 1 < n and toks[k].text == '.' and toks[k + 1].kind in ('id', 'qid'):
          last = toks[k + 1].text      # project.dataset.table
          k += 2
        if not (k < n and kw(toks[k], 'AS')):
          cur.aliases.add(last)
        continue
      if cur.in_from and (prv is None or prv.text == ',' or kw(prv, 'FROM', 'JOIN')) and not (nxt is not None and nxt.text in ('.', '(')):
        if not (nxt is not None and kw(nxt, 'AS')):
          cur.aliases.add(t.text)
        k += 1
        continue
      if nxt is not None and nxt.text == '.' and k + 2 < n and (toks[k + 2].kind in ('id', 'qid') or toks[k + 2].text == '*') \
         and not (prv is not None and prv.text in ('.', ')', ']')) and nxt.pos == t.pos + len(t.text):
        if not (cur.in_order and t.text in cur.col_aliases):
          cur.refs.append((t.text, k))
        k += 3
        continue
    k += 1

  def visible(region, name):
    r = region
    while r is not None:
      if name in r.aliases:
        return True
      r = r.parent
    return False
  for r in regions:
    for name, idx in r.refs:
      if not visible(r, name):
        problems.append('%s.%s at offset %d: alias %s is not introduced by a FROM clause of this or an enclosing query' % (
            name, toks[idx + 2].text, toks[idx].pos, name))
  return problems
