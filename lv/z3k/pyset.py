"""E3: z3 model of CPython's iteration order of a small set of small non-negative ints
(table of 8 slots, hash(i) == i, no linear probing for tables this small, perturbation
probe).  Used only to turn CrossHair's *candidate* counterexamples about list(set) into
inputs that reproduce on the real interpreter: CrossHair models sets in insertion order.
The model is validated against the running interpreter on every use."""
import itertools
import z3

W = 16
STEPS = 6


def probe_sequence(h):
  """slots visited when inserting hash h into an 8-slot table (z3 bit-vectors)."""
  seq = []
  i = h & 7
  perturb = h
  seq.append(i)
  for _ in range(STEPS):
    perturb = z3.LShR(perturb, 5)
    i = (i * 5 + 1 + perturb) & 7
    seq.append(i)
  return seq


def insert_all(keys):
  """-> list of slot terms, one per key, in insertion order (keys assumed distinct)."""
  slots = []
  for k in keys:
    seq = probe_sequence(k)
    chosen = seq[-1]
    for cand in reversed(seq[:-1]):
      free = z3.And(*[cand != s for s in slots]) if slots else z3.BoolVal(True)
      chosen = z3.If(free, cand, chosen)
    slots.append(chosen)
  return slots


def concrete_order(keys):
  """model's prediction of list(set) after adding `keys` in order (concrete ints)."""
  s = z3.Solver()
  ks = [z3.BitVecVal(k, W) for k in keys]
  slots = [z3.simplify(x).as_long() for x in insert_all(ks)]
  return [k for _, k in sorted(zip(slots, keys))]


def real_order(keys):
  st = set()
  for k in keys:
    st.add(k)
  return list(st)


def validate(limit=24):
  """-> number of (ordered pair / triple) predictions compared with the interpreter; raises on
  a mismatch."""
  n = 0
  for a, b in itertools.permutations(range(limit), 2):
    if concrete_order([a, b]) != real_order([a, b]):
      raise AssertionError('set model wrong on %r' % ((a, b),))
    n += 1
  for t in itertools.permutations([0, 8, 16, 3, 11], 3):
    if concrete_order(list(t)) != real_order(list(t)):
      raise AssertionError('set model wrong on %r' % (t,))
    n += 1
  return n


def find_order_dependent_pair(bound=1024):
  """z3: distinct a, b in [0, bound) whose iteration order depends on insertion order."""
  a, b = z3.BitVec('a', W), z3.BitVec('b', W)
  s = z3.Solver()
  s.add(z3.ULT(a, bound), z3.ULT(b, bound), a != b)
  sa, sb = insert_all([a, b])
  tb, ta = insert_all([b, a])
  # order after (a,b): a first iff sa < sb ; after (b,a): a first iff ta < tb
  s.add(z3.ULT(sa, sb) != z3.ULT(ta, tb))
  r = str(s.check())
  if r != 'sat':
    return r, None
  m = s.model()
  return r, (m[a].as_long(), m[b].as_long())
