"""E3: z3 encoding of QL.StrLiteral per dialect, extracted from the current source AST.

For every dialect branch of compiler/expr_translate.py: QL.StrLiteral the AST must reduce
to PREFIX + x.replace(c1, s1)...replace(cn, sn) + SUFFIX with single-character ci, or to
json.dumps(x, ensure_ascii=False).  From that a per-character image is built; the input is
N symbolic code points with symbolic length <= N; the output is a list of guarded
character slots; the dialect's string-literal lexer is a small state machine stepped over
the slots.  Assertion (negated for the query): the lexer consumes the emitted text as
exactly one literal, and the characters it decodes at input position i are exactly [x_i].
"""
import ast
import json
import os
import time
import z3

REPO = os.environ.get('VERIF_REPO', '/repo')

DIALECTS = ['SqLite', 'PostgreSQL', 'Presto', 'Trino', 'ClickHouse', 'DuckDB', 'BigQuery', 'Databricks']

# lexical rules (trusted): which lexer reads each dialect's literal
LEXER = {
    'SqLite': 'sq_plain', 'PostgreSQL': 'sq_plain', 'Presto': 'sq_plain', 'Trino': 'sq_plain',
    'ClickHouse': 'sq_backslash', 'DuckDB': 'e_backslash',
    'BigQuery': 'dq_backslash', 'Databricks': 'dq_backslash',
}

SPECIAL = [ord(c) for c in "a '\"\\\n\t-/*#%{}$();"] + [233, 23383]


class NotExtracted(Exception):
  pass


# ---------------------------------------------------------------- AST extraction

def extract():
  """-> {dialect: ('replace', prefix, [(c, s)...], suffix) | ('json',)} and the default"""
  path = os.path.join(REPO, 'compiler', 'expr_translate.py')
  tree = ast.parse(open(path).read())
  fn = None
  for node in ast.walk(tree):
    if isinstance(node, ast.ClassDef) and node.name == 'QL':
      for item in node.body:
        if isinstance(item, ast.FunctionDef) and item.name == 'StrLiteral':
          fn = item
  if fn is None:
    raise NotExtracted('QL.StrLiteral not found')
  arg = fn.args.args[1].arg
  out = {}
  default = None
  for st in fn.body:
    if isinstance(st, ast.Expr) and isinstance(st.value, ast.Constant):
      continue
    if isinstance(st, ast.If):
      names = dialect_names(st.test)
      if len(st.body) != 1 or not isinstance(st.body[0], ast.Return) or st.orelse:
        raise NotExtracted('unexpected if body')
      tr = transducer(st.body[0].value, arg)
      for n in names:
        if n not in out:
          out[n] = tr
    elif isinstance(st, ast.Return):
      default = transducer(st.value, arg)
    else:
      raise NotExtracted('unexpected statement %s' % ast.dump(st)[:80])
  if default is None:
    raise NotExtracted('no default return')
  return out, default


def dialect_names(test):
  # self.dialect.Name() in [...]   or   self.dialect.Name() == '...'
  if isinstance(test, ast.Compare) and len(test.ops) == 1:
    left = test.left
    ok = (isinstance(left, ast.Call) and isinstance(left.func, ast.Attribute) and left.func.attr == 'Name')
    if ok and isinstance(test.ops[0], ast.In) and isinstance(test.comparators[0], (ast.List, ast.Tuple)):
      return [e.value for e in test.comparators[0].elts]
    if ok and isinstance(test.ops[0], ast.Eq) and isinstance(test.comparators[0], ast.Constant):
      return [test.comparators[0].value]
  raise NotExtracted('unexpected condition %s' % ast.dump(test)[:120])


def is_the_string(node, arg):
  return (isinstance(node, ast.Subscript) and isinstance(node.value, ast.Name) and node.value.id == arg
          and isinstance(node.slice, ast.Constant) and node.slice.value == 'the_string')


def transducer(expr, arg):
  if (isinstance(expr, ast.Call) and isinstance(expr.func, ast.Attribute) and expr.func.attr == 'dumps'
      and isinstance(expr.func.value, ast.Name) and expr.func.value.id == 'json'
      and len(expr.args) == 1 and is_the_string(expr.args[0], arg)):
    kw = {k.arg: getattr(k.value, 'value', None) for k in expr.keywords}
    if kw != {'ensure_ascii': False}:
      raise NotExtracted('json.dumps keywords %r' % kw)
    return ('json',)
  if isinstance(expr, ast.BinOp) and isinstance(expr.op, ast.Mod) and isinstance(expr.left, ast.Constant):
    fmt = expr.left.value
    if fmt.count('%s') != 1 or '%' in fmt.replace('%s', ''):
      raise NotExtracted('format %r' % fmt)
    prefix, suffix = fmt.split('%s')
    right = expr.right
    if isinstance(right, ast.Tuple) and len(right.elts) == 1:
      right = right.elts[0]
    chain = []
    node = right
    while True:
      if is_the_string(node, arg):
        break
      if (isinstance(node, ast.Call) and isinstance(node.func, ast.Attribute) and node.func.attr == 'replace'
          and len(node.args) == 2 and all(isinstance(a, ast.Constant) and isinstance(a.value, str) for a in node.args)):
        c, s = node.args[0].value, node.args[1].value
        if len(c) != 1:
          raise NotExtracted('replace of a multi-character pattern %r' % c)
        chain.append((c, s))
        node = node.func.value
        continue
      raise NotExtracted('unexpected expression %s' % ast.dump(node)[:120])
    chain.reverse()
    return ('replace', prefix, chain, suffix)
  raise NotExtracted('unexpected return %s' % ast.dump(expr)[:120])


def image_of_char(tr, ch):
  """concrete image of one character under a transducer (used to build the z3 table)"""
  if tr[0] == 'json':
    return json.dumps(ch, ensure_ascii=False)[1:-1]
  s = ch
  for c, r in tr[2]:
    s = s.replace(c, r)
  return s


def affixes(tr):
  if tr[0] == 'json':
    return '"', '"'
  return tr[1], tr[3]


# ---------------------------------------------------------------- lexers (as z3 step functions)

BODY, ESC, QPEND, ENDED, ERR, START, START2 = 1, 2, 3, 4, 5, 0, 6


def decode_escape(ch):
  """character denoted by backslash + ch (common core of the backslash dialects)"""
  return z3.If(ch == ord('n'), 10, z3.If(ch == ord('t'), 9, ch))


def step(lexer, state, ch):
  """-> (new state, emitted?, emitted char)"""
  q, dq, bs = ord("'"), ord('"'), ord('\\')
  if lexer == 'sq_plain':
    ns = z3.If(state == START, z3.If(ch == q, BODY, ERR),
         z3.If(state == BODY, z3.If(ch == q, QPEND, BODY),
         z3.If(state == QPEND, z3.If(ch == q, BODY, ERR), ERR)))
    emit = z3.Or(z3.And(state == BODY, ch != q), z3.And(state == QPEND, ch == q))
    return ns, emit, ch
  if lexer in ('sq_backslash', 'e_backslash'):
    start_ok = (state == START) if lexer == 'sq_backslash' else (state == START2)
    ns = z3.If(z3.And(lexer == 'e_backslash', state == START) if False else False, ERR,
         z3.If(start_ok, z3.If(ch == q, BODY, ERR),
         z3.If(state == BODY, z3.If(ch == q, QPEND, z3.If(ch == bs, ESC, BODY)),
         z3.If(state == ESC, BODY,
         z3.If(state == QPEND, z3.If(ch == q, BODY, ERR), ERR)))))
    if lexer == 'e_backslash':
      ns = z3.If(state == START, z3.If(ch == ord('E'), START2, ERR), ns)
    emit = z3.Or(z3.And(state == BODY, ch != q, ch != bs), state == ESC, z3.And(state == QPEND, ch == q))
    out = z3.If(state == ESC, decode_escape(ch), ch)
    return ns, emit, out
  if lexer == 'dq_backslash':
    known = z3.Or(*[ch == ord(c) for c in 'nt"\\/bfr'])
    ns = z3.If(state == START, z3.If(ch == dq, BODY, ERR),
         z3.If(state == BODY, z3.If(ch == dq, ENDED, z3.If(ch == bs, ESC, BODY)),
         z3.If(state == ESC, z3.If(known, BODY, ERR), ERR)))
    emit = z3.Or(z3.And(state == BODY, ch != dq, ch != bs), z3.And(state == ESC, known))
    out = z3.If(state == ESC, decode_escape(ch), ch)
    return ns, emit, out
  raise ValueError(lexer)


def accepting(lexer, state):
  return state == (ENDED if lexer == 'dq_backslash' else QPEND)


# ---------------------------------------------------------------- the query

def allowed(x):
  return z3.Or(x == 9, x == 10, z3.And(x >= 0x20, x <= 0x10FFFF))


def check_dialect(dialect, tr, n, timeout_ms=120000):
  """-> (verdict, witness string or None, seconds, max image length)"""
  lexer = LEXER[dialect]
  prefix, suffix = affixes(tr)
  xs = [z3.Int('x%d' % i) for i in range(n)]
  length = z3.Int('len')
  s = z3.Solver()
  s.set('timeout', timeout_ms)
  s.add(length >= 0, length <= n)
  for x in xs:
    s.add(allowed(x))
  # image table: specials (tabulated from the extracted transducer), everything else maps to itself
  images = {c: image_of_char(tr, chr(c)) for c in SPECIAL + [9, 10]}
  maxlen = max(len(v) for v in images.values())
  state = z3.IntVal(START)
  for ch in prefix:
    state, _, _ = step(lexer, state, z3.IntVal(ord(ch)))
  ok = []
  for i, x in enumerate(xs):
    active = i < length
    cnt = z3.IntVal(0)
    last = z3.IntVal(-1)
    st = state
    for j in range(maxlen):
      # j-th character of image(x), guarded by its existence
      exists = z3.BoolVal(j == 0)       # default (identity image) has length 1
      chj = x if j == 0 else z3.IntVal(0)
      for c, img in images.items():
        if img == chr(c):
          continue
        exists = z3.If(x == c, z3.BoolVal(j < len(img)), exists)
        chj = z3.If(x == c, z3.IntVal(ord(img[j]) if j < len(img) else 0), chj)
      g = z3.And(active, exists)
      ns, emit, out = step(lexer, st, chj)
      st = z3.If(g, ns, st)
      cnt = z3.If(z3.And(g, emit), cnt + 1, cnt)
      last = z3.If(z3.And(g, emit), out, last)
    ok.append(z3.Implies(active, z3.And(st == BODY, cnt == 1, last == x)))
    state = st
  for ch in suffix:
    state, _, _ = step(lexer, state, z3.IntVal(ord(ch)))
  ok.append(accepting(lexer, state))
  s.add(z3.Not(z3.And(*ok)))
  t0 = time.time()
  r = str(s.check())
  secs = time.time() - t0
  if r != 'sat':
    return r, None, secs, maxlen
  m = s.model()
  ln = m.eval(length, model_completion=True).as_long()
  w = ''.join(chr(m.eval(x, model_completion=True).as_long()) for x in xs[:ln])
  return r, w, secs, maxlen


# ---------------------------------------------------------------- concrete lexers for replay

def concrete_lex(lexer, text):
  """-> decoded string if `text` is exactly one literal of the dialect, else None"""
  i = 0
  n = len(text)
  out = []
  if lexer == 'e_backslash':
    if not text.startswith('E'):
      return None
    i = 1
  quote = '"' if lexer == 'dq_backslash' else "'"
  if i >= n or text[i] != quote:
    return None
  i += 1
  while i < n:
    c = text[i]
    if c == quote:
      if lexer != 'dq_backslash' and i + 1 < n and text[i + 1] == quote:
        out.append(quote)
        i += 2
        continue
      return ''.join(out) if i == n - 1 else None
    if c == '\\' and lexer != 'sq_plain':
      if i + 1 >= n:
        return None
      e = text[i + 1]
      if lexer == 'dq_backslash' and e == 'u':
        try:
          out.append(chr(int(text[i + 2:i + 6], 16)))
        except ValueError:
          return None
        i += 6
        continue
      if lexer == 'dq_backslash' and e not in 'nt"\\/bfr':
        return None
      out.append({'n': '\n', 't': '\t', 'b': '\b', 'f': '\f', 'r': '\r'}.get(e, e))
      i += 2
      continue
    out.append(c)
    i += 1
  return None


def validate_json_assumption(samples=2000):
  """the encoding assumes json.dumps(ch, ensure_ascii=False) == '"' + ch + '"' outside the
  tabulated specials; check it on the real function."""
  import random
  rnd = random.Random(0)
  pts = list(range(0x20, 0x200)) + [rnd.randrange(0x20, 0x10FFFF) for _ in range(samples)]
  bad = []
  for p in pts:
    if p in SPECIAL or 0xD800 <= p <= 0xDFFF:
      continue
    ch = chr(p)
    if json.dumps(ch, ensure_ascii=False) != '"' + ch + '"':
      bad.append(p)
  return bad
