"""C19 — invalid programs are rejected with a diagnostic (lexical clause only)."""
from . import c15

FUNCTIONS = [
    'parser_py/parse.py: Traverse, RemoveComments, ParsingException (real code under CrossHair)',
]
ASSUMPTIONS = [
    'one clause of seven: syntactically unbalanced input.  For every string of length <=3 (quick) / <=4 (thorough) over all code points, RemoveComments raises ParsingException("Parenthesis matches nothing") exactly when an independent scanner-state specification written in the harness finds a closing bracket that matches nothing in code state, ParsingException("End of line in string") exactly for a newline inside a "..." literal, and never any other exception',
    'NOT decided here (statements about program shape with no data for a solver to range over): range restriction, aggregation without distinct, inconsistent distinct, recursion without a base case, functor applied to a non-argument, annotation of a missing predicate',
]


def run():
  return c15.run_lemmas('C19', 'c19', FUNCTIONS, ASSUMPTIONS,
                        'CrossHair executes the real RemoveComments on every string within the bound and compares the '
                        'raised diagnostic with an independent lexical specification; claimed only on "Confirmed over all paths".')


def replay(path):
  print(open(path).read())
  return 0
