"""C19 — invalid programs are rejected with a diagnostic: lexical clause over all short strings,
program-shape clauses over variant catalogues compiled whole under CrossHair."""
from . import c15

FUNCTIONS = [
    'parser_py/parse.py: Traverse, RemoveComments, ParsingException (real code under CrossHair)',
]
ASSUMPTIONS = [
    'clause "syntactically unbalanced input":  For every string of length <=3 (quick) / <=4 (thorough) over all code points, RemoveComments raises ParsingException("Parenthesis matches nothing") exactly when an independent scanner-state specification written in the harness finds a closing bracket that matches nothing in code state, ParsingException("End of line in string") exactly for a newline inside a "..." literal, and never any other exception',
    'program-shape clauses: six catalogues of variants (lv/checks/c19_variants.py), each variant marked valid or invalid by construction: range restriction (head / comparison / negated-comparison / expression variables, bound by atom, assignment or `in`), unbound variables of inlined predicates next to a caller variable of the same name, functor arguments the functor does (not) depend on (1 and 2 arguments, after an earlier application), recursion with and without a base case, annotations of existing / missing predicates (@OrderBy @Limit @NoInject @With @NoWith), aggregation / distinct coherence.  The whole compilation of each variant runs under CrossHair with the variant index symbolic: solver-driven enumeration, claimed only on "Confirmed over all paths"; a diagnostic must be one of the four types logica.py catches, any other exception is a violation',
    'cuts in the shape harnesses: programs are parsed concretely by the real parser at harness import; parsing of the dialect library text inside LogicaProgram.__init__ is memoised; the CSV function table is replaced by two entries (replays run without these cuts)',
    'not claimed: @Ground / @Recursive naming an undefined predicate (accepted by design / ignored), diagnostics text beyond its exception type',
]


def shape_source():
  from .. import variants
  from . import c19_variants as CV
  src = variants.prelude(True)
  names = []
  for name, fn in CV.GROUPS:
    n, sfn = variants.reject_kernel(name, fn())
    names.append(n)
    src += sfn
  return src, names


def replay_shape(name, args):
  """the variant CrossHair points at is compiled again by the real compiler in a fresh
  interpreter, without any of the harness's cuts"""
  import os, subprocess, sys, tempfile, shutil, re
  from .. import kern
  from . import c19_variants as CV
  group = name[2:]
  variants_list = dict(CV.GROUPS)[group]()
  m = re.search(r'-?\d+', args or '')
  i = int(m.group(0)) if m else 0
  text, pred, must_reject = variants_list[i]
  d = tempfile.mkdtemp(prefix='logica_verif_c19r_')
  script = r"""
import sys
from parser_py import parse
from compiler import universe, rule_translate, functors
from type_inference.research import infer
DIAG = (parse.ParsingException, rule_translate.RuleCompileException, functors.FunctorError, infer.TypeErrorCaughtException)


def outcome(text, pred):
  try:
    universe.LogicaProgram(parse.ParseFile(text)['rule']).FormattedPredicateSql(pred)
    return 'sql'
  except DIAG as e:
    return 'diagnostic'
  except Exception as e:
    return 'internal ' + type(e).__name__


history, (text, pred, must_reject) = %r, %r
for t, p, _m in history:
  outcome(t, p)
got = outcome(text, pred)
print(got)
sys.exit(0 if (got == 'diagnostic') == must_reject and not got.startswith('internal') else 7)
"""
  try:
    p = os.path.join(d, 'replay.py')
    results = []
    # first alone in a fresh interpreter; if that does not reproduce, after the other programs of
    # the catalogue (the harness compiles the whole catalogue once before the traced call)
    for history in ([], [v for k, v in enumerate(variants_list) if k != i]):
      with open(p, 'w') as f:
        f.write(kern.PRELUDE % os.environ.get('VERIF_REPO', '/repo') + script % (history, (text, pred, must_reject)))
      r = subprocess.run([sys.executable, p], stdout=subprocess.PIPE, stderr=subprocess.STDOUT, text=True)
      results.append((len(history), r.returncode, r.stdout.strip()[-80:]))
      if r.returncode == 7:
        break
    reproduced = results[-1][1] == 7
    what = ('an invalid program is compiled to SQL without a diagnostic' if must_reject else
            'a valid program is rejected')
    if reproduced and results[-1][0]:
      what += ' when %d other programs were compiled earlier in the process' % results[-1][0]
    return (reproduced, '%s (%s)' % (what, results[-1][2]),
            {'program': text, 'predicate': pred, 'must_be_rejected': must_reject, 'runs': results,
             'variant_group': group, 'variant_index': i})
  finally:
    shutil.rmtree(d, ignore_errors=True)


def shape_part(out):
  from .. import kernels
  from . import c19_variants as CV
  src, names = shape_source()
  res = kernels.run_kernels(out, 'program-shape diagnostics', src, names, 900, replay_shape)
  ok = [n for n in names if res[n].get('verdict') == 'confirmed' and res[n].get('twin') == 'reachable']
  out.coverage['evaluations'] = out.coverage.get('evaluations', 0) + sum(len(fn()) for g, fn in CV.GROUPS)
  out.coverage['distinct_nontrivial'] = out.coverage.get('distinct_nontrivial', 0) + sum(
      len(fn()) for g, fn in CV.GROUPS if 'k_' + g in ok)
  out.coverage['rule'] = ('one case = one lexical lemma over all strings within its bound, or one program variant of a shape '
                          'catalogue compiled whole under CrossHair; a variant counts when its catalogue kernel is "Confirmed over all paths" '
                          'with a violated reachability twin')
  out.coverage['functions_encoded'] = list(out.coverage.get('functions_encoded', [])) + [
      'compiler/universe.py: LogicaProgram.__init__ (UnfoldRecursion, RunMakes, Annotations, CheckAnnotatedObjects, CheckDistinctConsistency), FormattedPredicateSql, RunInjections (whole compilation under CrossHair, dialect-library parse memoised)',
      'compiler/rule_translate.py: ExtractRuleStructure, ElliminateInternalVariables (assert_full_ellimination and injected mode)',
      'compiler/functors.py: MakeAll, CallFunctor (bad_args), UnfoldRecursions, RemoveRulesProvenToBeNil',
      'parser_py/parse.py: ParseFile on every variant (concretely, at harness import): CheckAggregationCoherence, MultiBodyAggregation',
  ]
  out.coverage['shape_variants'] = {g: len(fn()) for g, fn in CV.GROUPS}
  out.coverage['shape_variant_samples'] = [dict(zip(('program', 'predicate', 'must_be_rejected'), fn()[0])) for g, fn in CV.GROUPS]


def run():
  return c15.run_lemmas('C19', 'c19', FUNCTIONS, ASSUMPTIONS,
                        'CrossHair executes the real RemoveComments on every string within the bound and compares the '
                        'raised diagnostic with an independent lexical specification; claimed only on "Confirmed over all paths".  '
                        'The program-shape clauses are decided on variant catalogues: every variant is compiled whole by the real '
                        'LogicaProgram + FormattedPredicateSql under CrossHair (2-4 s per path once the dialect library parse is memoised).',
                        extra_fn=shape_part)


def replay(path):
  print(open(path).read())
  return 0
