"""C19 — invalid programs are rejected with a diagnostic (lexical clause only)."""
from . import c15

FUNCTIONS = [
    'parser_py/parse.py: Traverse, RemoveComments, ParsingException (real code under CrossHair)',
]
ASSUMPTIONS = [
    'clause "syntactically unbalanced input":  For every string of length <=3 (quick) / <=4 (thorough) over all code points, RemoveComments raises ParsingException("Parenthesis matches nothing") exactly when an independent scanner-state specification written in the harness finds a closing bracket that matches nothing in code state, ParsingException("End of line in string") exactly for a newline inside a "..." literal, and never any other exception',
    'clauses "aggregation without distinct" and "inconsistent distinct": enumerated configurations only (which of: aggregated named argument, second aggregated argument, value aggregation, distinct; distinct on each of two rules)',
    'NOT decided here (statements about program shape with no data for a solver to range over, and a whole compilation costs >100 s per CrossHair path): range restriction, recursion without a base case, functor applied to a non-argument, annotation of a missing predicate',
]


SHAPE = r'''
from parser_py import parse
from compiler import universe, rule_translate, functors


def k_agg_needs_distinct(named_agg: bool, distinct: bool, two: bool, value_agg: bool) -> bool:
  """
  post: _
  """
  fields = ['x']
  if named_agg:
    fields.append('a? += y')
    if two:
      fields.append('b? Max= y')
  else:
    fields.append('a: y')
  head = 'P(%s)' % ', '.join(fields)
  if value_agg:
    head += ' Min= y'
  if distinct:
    head += ' distinct'
  text = head + ' :- E(x, y)'
  try:
    parse.ParseRule(parse.HeritageAwareString(text))
    rejected = False
  except parse.ParsingException:
    rejected = True
  # an aggregated argument needs `distinct`, unless the rule aggregates its value (which implies it)
  return rejected == (named_agg and not distinct and not value_agg)


def distinct_consistency(d1, d2):
  text = ('@Engine("sqlite");\nQ(x) %s:- E(x, y);\nQ(y) %s:- F(x, y);\n' %
          ('distinct ' if d1 else '', 'distinct ' if d2 else ''))
  parse.TOO_MUCH = 'too much'
  try:
    rules = parse.ParseFile(text)['rule']
    universe.LogicaProgram(rules)
    rejected = False
  except (parse.ParsingException, rule_translate.RuleCompileException, functors.FunctorError):
    rejected = True
  return rejected == (d1 != d2)


def k_distinct_consistency_first_distinct(d2: bool) -> bool:
  """
  post: _
  """
  return distinct_consistency(True, d2)


def k_distinct_consistency_first_plain(d2: bool) -> bool:
  """
  post: _
  """
  return distinct_consistency(False, d2)
'''
SHAPE_NAMES = ['k_agg_needs_distinct', 'k_distinct_consistency_first_distinct', 'k_distinct_consistency_first_plain']


def replay_shape(name, args):
  import os, subprocess, sys, tempfile, shutil
  from .. import kern
  d = tempfile.mkdtemp(prefix='logica_verif_c19r_')
  try:
    p = os.path.join(d, 'replay.py')
    with open(p, 'w') as f:
      f.write(kern.PRELUDE % os.environ.get('VERIF_REPO', '/repo') + SHAPE +
              '\nimport sys\nsys.exit(0 if %s(%s) else 7)\n' % (name, args))
    r = subprocess.run([sys.executable, p], stdout=subprocess.PIPE, stderr=subprocess.STDOUT, text=True)
    return (r.returncode != 0, 'diagnostic for aggregation/distinct coherence differs from the rule (exit %d)' % r.returncode,
            {'call': '%s(%s)' % (name, args), 'output': r.stdout[-800:]})
  finally:
    shutil.rmtree(d, ignore_errors=True)


def shape_part(out):
  from .. import kernels
  kernels.run_kernels(out, 'aggregation / distinct coherence', SHAPE, SHAPE_NAMES, 1500, replay_shape,
                      extra_args=['--per_path_timeout', '600'])


def run():
  return c15.run_lemmas('C19', 'c19', FUNCTIONS, ASSUMPTIONS,
                        'CrossHair executes the real RemoveComments on every string within the bound and compares the '
                        'raised diagnostic with an independent lexical specification; claimed only on "Confirmed over all paths".  '
                        'Two further clauses are decided by solver-driven enumeration of their (tiny) configuration spaces on the real '
                        'ParseRule / ParseFile + LogicaProgram: an aggregated argument without `distinct` (16 configurations) and '
                        'inconsistent `distinct` among two rules of a predicate (4 configurations, ~130 s per path under CrossHair).',
                        extra_fn=shape_part)


def replay(path):
  print(open(path).read())
  return 0
