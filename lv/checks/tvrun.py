"""Shared runner for the translation-validation checks (C01, C02, C03)."""
import json
import multiprocessing as mp
import os
import random
import time
import traceback

from .. import framework as fw


def _work(job):
  prop, family, s, K, timeout_ms, selftest = job
  from .. import gen, tv
  from .. import vals as V
  try:
    case = getattr(gen, family + '_case')(s)
  except Exception:  # noqa: BLE001
    return {'seed': s, 'family': family, 'text': '', 'results': [
        {'pred': '*', 'status': 'harness_error', 'why': 'generator: ' + traceback.format_exc()[-800:]}]}
  kk = K if K is not None else case.K
  if getattr(case, 'rec_mode', 'exact') == 'contain':
    out = tv.validate_contain(case, prop, K=kk, timeout_ms=timeout_ms)
    out['seed'] = s
    return out
  out = tv.validate_case(case, prop, None, K=kk, timeout_ms=timeout_ms)
  # programs that blow the slot budget are retried on a smaller database
  while kk > 1 and any(r['status'] == 'not_encodable' and 'slot budget' in r.get('why', '')
                       for r in out['results']):
    kk -= 1
    again = tv.validate_case(case, prop, None, K=kk, timeout_ms=timeout_ms)
    by = {r['pred']: r for r in again['results']}
    out['results'] = [by[r['pred']] if (r['status'] == 'not_encodable' and 'slot budget' in r.get('why', ''))
                      else r for r in out['results']]
  out['seed'] = s
  heavy = str(getattr(case, 'notes', '')).startswith('argbest')
  if selftest or heavy:
    try:
      if heavy:
        # the K-best aggregates are Python UDFs with heap logic the SQL model abstracts from: more and
        # larger concrete databases (more rows than K, few ties) for the model-vs-SQLite-vs-reference test
        probs, n = tv.selftest_case(case, random.Random(s), ntrials=24, K=5, hi=30, key_hi=1)
      else:
        probs, n = tv.selftest_case(case, random.Random(s), ntrials=2, K=min(kk, 2))
    except Exception:  # noqa: BLE001
      probs, n = [('selftest crashed', traceback.format_exc()[-800:])], 0
    out['selftest'] = {'problems': probs, 'n': n}
  return out


def run_tv(prop, families, functions, assumptions, design_ref, explanation_extra='', extra_fn=None,
           level='translation_validation'):
  """families: {name: (n_quick, n_thorough, K or None)}"""
  t0 = time.time()
  out = fw.Outcome(prop, level, t0)
  thorough = fw.tier() == 'thorough'
  timeout_ms = 300000 if thorough else 60000
  base = fw.seed() * 1000003
  jobs = []
  for fam, (nq, nt, K) in families.items():
    n = nt if thorough else nq
    for i in range(n):
      jobs.append((prop, fam, base + i, K, timeout_ms, i % 4 == 0))
  with mp.Pool(fw.nproc()) as pool:
    results = pool.map(_work, jobs, chunksize=1)
  counts = {}
  programs = 0
  solver_s = 0.0
  queries = 0
  distinct = set()
  samples = []
  selftests = 0
  per_family = {}
  total_preds = 0
  for res in results:
    programs += 1
    if 'selftest' in res:
      selftests += res['selftest']['n']
      for p in res['selftest']['problems']:
        if p and p[0] == 'violation':
          rep = dict(p[2])
          rep.update({'property': prop, 'seed': res['seed'], 'family': res.get('family')})
          out.violation('%s/%s seed %d: %s' % (res.get('family'), p[1], res['seed'],
                                                'sqlite_error' if rep.get('sqlite_error') else
                                                'rows (real SQLite vs reference on a concrete database of the encoder self-test)'), rep)
        else:
          out.harness_errors.append('self-test (model vs real SQLite): %r' % (p,))
    for r in res['results']:
      total_preds += 1
      st = r['status']
      counts[st] = counts.get(st, 0) + 1
      if r.get('known_finding'):
        out.violation('known', r['known_replay'])
        counts['known_finding_then_rechecked'] = counts.get('known_finding_then_rechecked', 0) + 1
      pf = per_family.setdefault(res.get('family', '?'), {})
      pf[st] = pf.get(st, 0) + 1
      solver_s += r.get('solver_s', 0.0)
      queries += r.get('queries', 0)
      if st == 'proved':
        distinct.add((res['text'], r['pred']))
        if len(samples) < 4:
          samples.append({'program': res['text'], 'predicate': r['pred'], 'K': r.get('K'),
                          'slots_sql_ref': r.get('slots'), 'verdict': 'unsat'})
      elif st == 'violation':
        rep = r.get('replay', {})
        rep['seed'] = res['seed']
        rep['family'] = res.get('family')
        desc = '%s/%s seed %d: %s' % (res.get('family'), r['pred'], res['seed'], r.get('kind'))
        out.violation(desc, rep)
      elif st == 'harness_error':
        out.harness_errors.append('%s seed %s %s: %s\n%s' % (
            res.get('family'), res['seed'], r['pred'], r.get('why'),
            json.dumps(r.get('detail'), default=repr)[:1500] if r.get('detail') else res['text']))
      elif st == 'unknown':
        out.inconclusive.append('%s seed %s %s: solver unknown/timeout' % (
            res.get('family'), res['seed'], r['pred']))
  out.coverage.update({
      'programs': programs,
      'predicates_checked': total_preds,
      'disagreements_checked': queries,
      'evaluations': queries,
      'distinct_nontrivial': len(distinct),
      'rule': ('one case = (catalogue program, predicate); distinct by program text + predicate; '
               'non-trivial = z3 found a database on which the predicate is non-empty (witness query sat) '
               'and proved SQL == oracle for all databases within the bound (unsat)'),
      'status_counts': counts,
      'per_family': per_family,
      'samples': samples or [{'note': 'no proved case'}],
      'solver_s': round(solver_s, 2),
      'selftest_comparisons_model_vs_real_sqlite': selftests,
      'functions_encoded': functions,
      'bounds': {'tier': fw.tier(), 'families': {k: {'programs': (v[1] if thorough else v[0]), 'K_rows_per_table': v[2] or 'per case'} for k, v in families.items()},
                 'cell_range': '[-2^20, 2^20]', 'range_builtin_unroll': 3,
                 'slot_budget': 400, 'z3_timeout_ms_per_query': timeout_ms},
      'explanation': ('z3 queries "exists database within bound: emitted SQL != oracle"; unsat = holds for '
                      'all databases within the bound. ' + explanation_extra),
      'design_ref': design_ref,
  })
  if extra_fn:
    extra_fn(out)
  out.assumptions = assumptions
  ne = counts.get('not_encodable', 0)
  if total_preds and ne > 0.4 * total_preds:
    out.inconclusive.append('%d of %d predicates not encodable' % (ne, total_preds))
  return out.finish(max_inconclusive_fraction=0.1, total=total_preds)


def replay_tv(path):
  """Re-run a stored counterexample against the real code."""
  from .. import e1
  with open(path) as f:
    rep = json.load(f)
  from .. import real
  c = real.compile_pred(rep['program'], rep['pred'])
  hdr, rows = e1.run_real(c.statements(), rep['schema'], {k: [tuple(r) for r in v] for k, v in rep['db'].items()})
  print('program:\n' + rep['program'])
  print('database:', rep['db'])
  print('real header:', hdr)
  print('real rows:', e1.rows_key(rows))
  print('expected rows:', rep.get('expected_rows'))
  return 0
