"""C07 — results do not depend on the textual order or naming used in a program."""
from . import pairrun

FUNCTIONS = [
    'compiler/rule_translate.py: ElliminateInternalVariables, ReplaceVariableEverywhere, SortUnnestings, NamesAllocator (through the real compiler on original and permuted/renamed program)',
    'compiler/universe.py: LogicaProgram.PredicateSql (UNION ALL in program order), RunInjections',
    'compiler/functors.py (recursive programs)',
    'parser_py/parse.py: ParseFile',
]
ASSUMPTIONS = [
    'part (a): original and transformed program are both compiled by the real compiler; z3 proves the two SQL texts return the same multiset on every database with <=K rows per table; transformations: permutation of rules, of conjuncts at every nesting level, of disjuncts; consistent renaming of variables (names that sort in reverse order, names that look like compiler-generated names such as col0/t_0, short names) and of predicates',
    'base programs: catalogue families core, agg, rec (lv/gen.py) and the functor programs of C04 (made predicates renamed so that their alphabetical order changes, := lines permuted); List columns compared as multisets; ArgMin/ArgMax under no-tie assumption',
    'a transformed program that the compiler rejects while the original compiles is a violation (known finding KF-C07-order-dependent-elimination is matched by its diagnostic on a pure conjunct permutation)',
    'trusted: lv/sqlsem.py (validated against SQLite in C01/C02 self-tests), z3',
]


def run():
  return pairrun.run_pairs('C07', [('lv.gen_meta', 'c07_pairs', 135, 5000), ('lv.gen_meta', 'c07_named_rotation_pairs', 4, 40), ('lv.gen_meta', 'c07_dnf_pairs', 4, 40), ('lv.gen_meta', 'c07_functor_pairs', 24, 1000), ('lv.gen_meta', 'c07_kf_pairs', 1, 1)], FUNCTIONS, ASSUMPTIONS,
                           'DESIGN.md §3 C07',
                           rejected_is_violation=lambda r: r.get('rejected_side') == 'b')


def replay(path):
  return pairrun.replay_pair(path)
