"""C14 — execution runs each statement after its inputs, the prescribed number of times."""
from . import pairrun, c14_kernel as K
from .. import framework as fw, kernels

FUNCTIONS = [
    'common/concertina_lib.py: Concertina.__init__, UnderstandIterations, SortActions, Run, RunOneAction, UpdateStateForIterativeAction, ActionIterationWantsToStopBySignal (CrossHair, real code)',
    'common/concertina_lib.py: ExecuteLogicaProgram, ConcertinaConfig, RenamePredicate, ConcertinaQueryEngine (real code with a symbolic sql_runner)',
    'compiler/universe.py: SubqueryTranslator.TranslateTableAttachedToFile (dependency_edges, table_to_export_map), TranslateTable (data_dependency_edges), Annotations.Iterations',
]
ASSUMPTIONS = [
    'part (a), CrossHair, claimed only on "Confirmed over all paths": all 64 DAGs on 4 actions (edges from lower to higher index), an iteration group on a contiguous index block (default mode with 2 or 4 members, diamond mode with 1 or 2), repetitions 1..3 symbolic; two concrete assignments of lexicographic names to indices (identity and reversed); a separate harness per shape with a symbolic stop instant (stop-signal file non-empty from probe k on, k in 0..4, repetitions 3); two iteration groups back to back where the second reads the first (6 actions, 6 symbolic edges, both repetition counts symbolic, 4 name assignments)',
    'precondition = shape invariant I of compiled plans: outside prerequisites of the lower half of an iteration are also prerequisites of its upper half; part (b) checks I on every plan it compiles',
    'assertions: first run of an action after first run of each prerequisite; a reader outside an iteration starts after the last repetition of the member it reads; non-iterated actions run exactly once; members run round-robin in declared order exactly `repetitions` times, or a prefix of that sequence of at least one round once the stop signal was observed; the run terminates',
    'stubs: Concertina.Display/UpdateDisplay empty; `os` and `open` inside concertina_lib replaced by a fake whose stop file is empty before probe k and non-empty afterwards',
    'part (b), z3: plans compiled from @Ground chains/diamonds and from recursion at depths 21-24 are executed by the real ExecuteLogicaProgram with a symbolic sql_runner for [P], [Q], [P,Q] and [Q,P]; final_result[P] is proved equal in all of them and equal to the single-script result; a statement reading a table that has not been produced makes the symbolic runner fail and is replayed on real SQLite',
]


def plan_invariant(out):
  """invariant I on compiled plans (concrete check tying parts (a) and (b) together)."""
  from .. import gen_meta, plan
  checked = 0
  bad = []
  for s in range(12):
    for p in gen_meta.c14_pairs(s)[:1]:
      side = p['a']
      try:
        executions = plan.compile_executions(side.text, side.preds)
      except Exception as e:  # noqa: BLE001
        continue
      for e in executions:
        requires = {}
        for a, b in set(map(tuple, e.dependency_edges)) | set(map(tuple, e.data_dependency_edges)):
          requires.setdefault(b, set()).add(a)
        for name, it in e.iterations.items():
          preds = [q for q in it['predicates'] if q in e.table_to_export_map]
          if it.get('mode') == 'diamond':
            upper, lower = preds, []
          else:
            upper, lower = preds[:len(preds) // 2], preds[len(preds) // 2:]
          ext_u = set(r for q in upper for r in requires.get(q, ()) if r not in preds)
          ext_l = set(r for q in lower for r in requires.get(q, ()) if r not in preds)
          checked += 1
          if not ext_l <= ext_u:
            bad.append((side.text, name, sorted(ext_l - ext_u)))
  out.coverage['plan_invariant_I'] = {'iterations_checked': checked, 'violations_of_I': len(bad)}
  if bad:
    out.hard_inconclusive.append('compiled plan does not satisfy invariant I assumed by part (a): %r' % (bad[0],))


def kernel_part(out):
  src = K.HEAD
  names = []
  specs = [(4, 1, 2, 'default'), (4, 0, 2, 'default'), (4, 2, 2, 'default'), (4, 1, 2, 'diamond'),
           (4, 0, 1, 'diamond'), (4, 0, 4, 'default')]
  thorough = fw.tier() == 'thorough'
  perms = (0, 23, 9, 14) if thorough else (0, 23)
  for spec in specs:
    for perm in perms:
      n, s = K.one_group(*spec, perm=perm)
      names.append(n)
      src += s
    n, s = K.one_group(*spec, perm=0, with_stop=True)
    names.append(n)
    src += s
  for p in ((0, 1, 3, 5) if thorough else (0, 5)):
    n, s = K.two_groups(p)
    names.append(n)
    src += s
  kernels.run_kernels(out, 'concertina scheduler', src, names, 2400, replay_kernel)
  plan_invariant(out)


def replay_kernel(name, args):
  """re-run the harness function concretely (real Concertina, no CrossHair)."""
  import os, subprocess, sys, tempfile, shutil
  from .. import kern
  src = K.HEAD
  if 'two_groups' in name:
    n, s = K.two_groups(int(name.rsplit('_', 1)[1]))
  else:
    parts = name.split('_')   # k plan n4 g1 2 default p0 [stop]
    n, s = K.one_group(int(parts[2][1:]), int(parts[3][1:]), int(parts[4]), parts[5], perm=int(parts[6][1:]),
                       with_stop=name.endswith('_stop'))
  d = tempfile.mkdtemp(prefix='logica_verif_c14r_')
  try:
    p = os.path.join(d, 'replay.py')
    with open(p, 'w') as f:
      f.write(kern.PRELUDE % os.environ.get('VERIF_REPO', '/repo') + src + s +
              '\nimport sys\nsys.exit(0 if %s(%s) else 7)\n' % (name, args))
    r = subprocess.run([sys.executable, p], stdout=subprocess.PIPE, stderr=subprocess.STDOUT, text=True)
    return (r.returncode != 0, 'schedule produced by the real Concertina violates the order/count assertions (exit %d)' % r.returncode,
            {'call': '%s(%s)' % (name, args), 'output': r.stdout[-800:]})
  finally:
    shutil.rmtree(d, ignore_errors=True)


def run():
  return pairrun.run_pairs('C14', [('lv.gen_meta', 'c14_pairs', 24, 240)], FUNCTIONS, ASSUMPTIONS,
                           'DESIGN.md §3 C14', rejected_is_violation=lambda r: True, level='other',
                           extra_fn=kernel_part)


def replay(path):
  return pairrun.replay_pair(path)
