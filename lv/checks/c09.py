"""C09 — every dialect compiles the core language into well-scoped SQL (catalogue x 8 dialects;
solver-driven enumeration: the program index is the symbolic variable, the compilation and the
structural scan of the emitted SQL run natively on the selected program)."""
import os
import time
from .. import framework as fw, kernels, kern, variants

DIALECTS = ['sqlite', 'bigquery', 'psql', 'duckdb', 'trino', 'presto', 'clickhouse', 'databricks']
FUNCTIONS = [
    'compiler/dialects.py: every dialect class (Name, BuiltInFunctions, InfixOperators, Subscript, UnnestPhrase, ArrayPhrase, GroupBySpecBy, DecorateCombineRule, LibraryProgram)',
    'compiler/universe.py: LogicaProgram.__init__, FormattedPredicateSql, TranslateWithedTable, GenerateWithClauses; compiler/rule_translate.py: AsSql, VarsVocabulary, NamesAllocator; compiler/expr_translate.py: ConvertToSql, ListLiteral, Record (whole compilation, real code)',
    'type_inference/research/infer.py for the type-checked dialects (psql, duckdb, clickhouse)',
    'lv/scope.py: structural scanner of the emitted SQL (calibrated each design round on the 801 predicates of integration_tests/ and examples/ in their own dialects: 0 flagged)',
]
ASSUMPTIONS = [
    'programs: the seeded catalogue families core, agg, sugarbase, layered, orderby, rec, builtins (lv/gen.py) plus hand-written programs with records, nested records, lists, strings and casts; each compiled for all eight engines by replacing the @Engine line; the last two predicates of each program',
    'accepted outcomes: SQL that lv/scope.py finds well-formed, or one of the four diagnostic exception types; any other exception, an unterminated literal / comment, an unbalanced bracket, an alias.column whose alias is not introduced by a FROM clause of the same or an enclosing query, a WITH table read before its definition, an unexpanded %s / {0} / ${flag} is a violation',
    'the scanner is lexical: it does not know column lists, so a reference to a missing column of an existing alias is not detected; dataset.table in FROM / DROP / CREATE headers and function / type definitions are skipped',
    'cuts: programs parsed at harness import; dialect-library parse memoised; replays run in a fresh interpreter without cuts',
]

EXTRA = [
    ('records', 'T({a: 1, b: "x"}, [1, 2]);\nP(r.a, l, {k: r, m: l}) :- T(r, l);\nQ(x) List= y :- P(x, y, z);\n', ['P', 'Q']),
    ('field_of_table', 'P(r.a, r.b.c) :- T(r);\nQ(x) :- T(r), x == r.a + 1, r.b.c > 0;\n', ['P', 'Q']),
    ('strings', 'T("it\'s", "a\\\\b", "q\\"q", "%s {0} ${x}");\nP(x ++ y, z) :- T(x, y, z, w), w != "a";\n', ['P']),
    ('lists', 'P(x, Size(l), Element(l, 0), y) :- T(x, l), y in l, x in [1, 2, 3];\nQ(l) :- l == [1, 2], P(x, s, e, y);\n', ['P', 'Q']),
    ('aggregates', 'P(x, s? += y, l? List= y, m? Max= y, c? Count= y) distinct :- T(x, y);\nQ(x) Min= y :- T(x, y);\nR(x, ArgMax{y -> x :- T(x, y)}) :- T(x, z);\n', ['P', 'Q', 'R']),
    ('negation_combine', 'P(x) :- T(x, y), ~S(x), ~(S(z), z > y), v == Sum{w :- T(w, y)}, v > 0;\n', ['P']),
    ('with_chain', '@With(A);\n@With(B);\nA(x, y) :- T(x, y);\nB(x) distinct :- A(x, y);\nC(x) += y :- A(x, y), B(y);\nD(x) :- C(x) == v, B(x), ~A(x, x);\n', ['D', 'C']),
    ('recursion', '@Recursive(R, 2);\nR(x, y) distinct :- T(x, y);\nR(x, y) distinct :- R(x, z), T(z, y);\nN() += 1 :- R(x, y);\n', ['R', 'N']),
    ('functor', 'A(x) :- T(x, y);\nB(x) :- S(x);\nF(x) :- A(x), A(x + 1);\nG := F(A: B);\nH(x) :- G(x), F(x);\n', ['G', 'H']),
    ('if_case', 'P(x, if x > 1 then "big" else if x == 1 then "one" else "small") :- T(x, y);\n', ['P']),
    ('flags', '@DefineFlag("limit", "3");\n@DefineFlag("name", "a b");\nP(x, FlagValue("name")) :- T(x, y), x < ToInt64(FlagValue("limit"));\n', ['P']),
    ('ground_shared_with', 'D(1, 2); D(2, 3); D(3, 4); D(1, 5);\nC(x) distinct :- D(x, y);\nB(x, n? += 1) distinct :- C(x), D(x, y);\n@Ground(G);\nG(x, m? Max= n) distinct :- B(x, n:);\nP(x, m, n) :- G(x, m:), B(x, n:);\nP2(x, m, n) :- B(x, n:), G(x, m:);\n', ['P', 'P2']),
    ('untyped_lists', 'P(x: 1, l: []);\nQ(Size([]));\nR({a: [null]});\nS(x) :- x in [];\n', ['P', 'Q', 'R', 'S']),
    ('in_as_value', 'P(x, b) :- T(x, l), b == (x in l);\nQ(x) :- T(x, l), !(x in l);\nR(x, if x in l then 1 else 0) :- T(x, l);\nU(x) :- T(x, l), (x in l) || x > 1;\n', ['P', 'Q', 'R', 'U']),
    ('mixed_record', 'P(x, name: y) :- T(x, y);\nQ(r:) :- P(..r);\nR({x, name: y}) :- T(x, y);\nS(l? List= {x, name: y}) distinct :- T(x, y);\n', ['Q', 'R', 'S']),
    ('mixed_record_typed', 'P(1, name: "a");\nP(2, name: "b");\nQ(r:) :- P(..r);\nR({x, name: y}) :- P(x, name: y);\nS(l? List= {x, name: y}) distinct :- P(x, name: y);\n', ['Q', 'R', 'S']),
    ('bodyless_combine', 'Q(x, s) :- T(x, y), s == Sum{x * 2};\nR(x, l, m) :- T(x, y), l == List{y}, m == Max{x + y}, m > 0;\n', ['Q', 'R']),
    ('order_limit', '@OrderBy(P, "col0 desc", "col1");\n@Limit(P, 2);\nP(x, y) :- T(x, y);\nQ(x) :- P(x, y);\n', ['P', 'Q']),
]


def programs(n):
  """[(label, text without @Engine line, [predicates])]"""
  from .. import gen
  out = [(name, text, preds) for name, text, preds in EXTRA]
  fams = ['core', 'agg', 'sugarbase', 'layered', 'orderby', 'rec', 'builtins']
  base = fw.seed() * 1000003
  i = 0
  while len(out) < n:
    fam = fams[i % len(fams)]
    s = base + i // len(fams)
    i += 1
    try:
      case = getattr(gen, fam + '_case')(s)
    except Exception:  # noqa: BLE001
      continue
    text = getattr(case, 'compile_text', None) or case.prog.text()
    if not text.startswith('@Engine("sqlite");\n'):
      continue
    out.append(('%s/%d' % (fam, s), text[len('@Engine("sqlite");\n'):], list(case.check[-2:])))
  return out


KERNEL_HEAD = r'''
import sys
sys.path.insert(1, %(verif)r)
from lv import scope

PROGS = %(progs)r
ITEMS = {}
for _d in %(dialects)r:
  ITEMS[_d] = []
  for _label, _text, _preds in PROGS:
    _rules = rules_of('@Engine("%%s");\n' %% _d + _text)
    for _p in _preds:
      ITEMS[_d].append((_label, _rules, _p))
  warm([it[1] for it in ITEMS[_d]], [it[2] for it in ITEMS[_d]])


def dialect_ok(d, j):
  label, rules, pred = ITEMS[d][j]
  kind, what = compile_outcome(rules, pred)
  if kind == 'internal':
    return False
  if kind == 'diagnostic':
    return True
  return not scope.check(what, d)
'''

KERNEL_FN = r'''

def k_dialect_%(dialect)s(i: int) -> bool:
  """
  pre: 0 <= i < len(ITEMS[%(dialect)r])
  post: _
  """
  j = concretise(i, len(ITEMS[%(dialect)r]))
  with untraced():
    return dialect_ok(%(dialect)r, j)
'''


def source(progs):
  src = variants.prelude(False) + KERNEL_HEAD % dict(verif=fw.VERIF, progs=progs, dialects=DIALECTS)
  names = []
  for d in DIALECTS:
    src += KERNEL_FN % dict(dialect=d)
    names.append('k_dialect_%s' % d)
  return src, names


def replay_for(progs):
  def replay(name, args):
    import re, subprocess, sys, tempfile, shutil
    dialect = name[len('k_dialect_'):]
    m = re.search(r'-?\d+', args or '')
    j = int(m.group(0)) if m else 0
    items = [(label, text, p) for label, text, preds in progs for p in preds]
    label, text, pred = items[min(j, len(items) - 1)]
    script = kern.PRELUDE % os.environ.get('VERIF_REPO', '/repo') + r"""
import sys
sys.path.insert(1, %r)
from parser_py import parse
from compiler import universe, rule_translate, functors
from type_inference.research import infer
from lv import scope
text, pred, dialect = %r, %r, %r
try:
  sql = universe.LogicaProgram(parse.ParseFile(text)['rule']).FormattedPredicateSql(pred)
  probs = scope.check(sql, dialect)
  print('\n'.join(probs) if probs else 'well-formed')
  sys.exit(7 if probs else 0)
except (parse.ParsingException, rule_translate.RuleCompileException, functors.FunctorError, infer.TypeErrorCaughtException) as e:
  print('diagnostic', type(e).__name__)
  sys.exit(0)
except Exception as e:
  import traceback
  print('internal error:', traceback.format_exc()[-600:])
  sys.exit(7)
""" % (fw.VERIF, '@Engine("%s");\n' % dialect + text, pred, dialect)
    r = subprocess.run([sys.executable, '-c', script], stdout=subprocess.PIPE, stderr=subprocess.STDOUT, text=True)
    return (r.returncode == 7, 'engine %s: %s' % (dialect, r.stdout.strip()[-300:]),
            {'program': '@Engine("%s");\n' % dialect + text, 'predicate': pred, 'dialect': dialect,
             'catalogue_label': label, 'output': r.stdout[-1200:]})
  return replay


def run():
  t0 = time.time()
  out = fw.Outcome('C09', 'other', t0)
  thorough = fw.tier() == 'thorough'
  progs = programs(160 if thorough else 40)
  nitems = sum(len(p[2]) for p in progs)
  src, names = source(progs)
  res = kernels.run_kernels(out, 'dialects', src, names, 1800, replay_for(progs))
  confirmed = len([n for n in names if res[n].get('verdict') == 'confirmed' and res[n].get('twin') == 'reachable'])
  out.coverage.update({
      'evaluations': nitems * len(DIALECTS),
      'distinct_nontrivial': nitems * confirmed,
      'programs': len(progs),
      'rule': 'one case = (catalogue program, predicate, engine); counted when the engine kernel is "Confirmed over all paths" (every program index executed) with a violated reachability twin',
      'samples': [{'program': progs[0][1], 'predicates': progs[0][2], 'engines': DIALECTS},
                  {'program': progs[len(EXTRA)][1], 'predicates': progs[len(EXTRA)][2], 'label': progs[len(EXTRA)][0]}],
      'functions_encoded': FUNCTIONS,
      'bounds': {'programs': len(progs), 'predicates': nitems, 'engines': DIALECTS},
      'explanation': ('For each engine one CrossHair kernel takes the index of a (program, predicate) pair of the catalogue as its symbolic '
                      'variable, branches on it, and runs the whole real compilation of that program for that engine followed by the '
                      'structural scan of the emitted SQL natively.  "Confirmed over all paths" = every pair was compiled and scanned.  This is '
                      'solver-driven enumeration of a finite catalogue: program shape is not symbolic.'),
      'exhaustive': True,
      'design_ref': 'DESIGN.md §3 C09',
  })
  out.assumptions = ASSUMPTIONS
  return out.finish()


def replay(path):
  print(open(path).read())
  return 0
