"""C11 — documented shorthand forms mean the same as their long forms."""
from . import pairrun

FUNCTIONS = [
    'parser_py/parse.py: ParseRecordInternals, ParseHeadCall, ParseNegation, ParsePropositionalImplication, ParseCombine, ParseConciseCombine, ParseUltraConciseCombine, ParseProposition, DisjunctiveNormalForm (through ParseFile on both forms)',
    'compiler/rule_translate.py: InlinePredicateValues, ExtractRuleStructure',
    'compiler/universe.py: RunInjections (positional/colN arguments)',
    'compiler/dialect_libraries/sqlite_library.py: `=` library predicate',
]
ASSUMPTIONS = [
    'each pair = a catalogue program (families core, agg, sugarbase, exprs: `else if` chains with overlapping conditions / repeated values and nested negations) and the same program with one documented shorthand rewritten into its long form (or back) at every applicable site by an AST rewrite in lv/gen_meta.py: positional<->colN, `a:`<->`a: a`, F(x)=v<->logica_value, functional call in expression<->extra conjunct (also inside negations, combines, implications), =<->==, ~P<->Max{1 :- P} is null, A=>B<->~(A,~B), the three combine syntaxes, x in [a,b]<->alternatives, several rules<->bare top-level `|`, P(k) Op= e<->logica_value? Op= e distinct',
    'z3 proves both SQL texts equal on all databases with <=K rows per table (K=2, 3 for single-atom aggregates)',
    'a pair whose long form is rejected by the compiler while the short form compiles counts as a violation (unless it is the listed known finding)',
    'trusted: lv/sqlsem.py, z3',
]


def run():
  return pairrun.run_pairs('C11', [('lv.gen_meta', 'c11_pairs', 64, 3200), ('lv.gen_meta', 'c11_expr_pairs', 8, 64), ('lv.gen_meta', 'c11_kf_pairs', 3, 3)], FUNCTIONS, ASSUMPTIONS,
                           'DESIGN.md §3 C11',
                           rejected_is_violation=lambda r: r.get('rejected_side') == 'b')


def replay(path):
  return pairrun.replay_pair(path)
