"""CrossHair harness source for C05: the real type inference on skeleton programs whose
literal kinds (and, for one skeleton, accessed field names) are symbolic."""

HEAD = r'''
import copy
from parser_py import parse
from type_inference.research import infer

KIND_NODES = [
    {'the_number': {'number': '7'}},
    {'the_string': {'the_string': 'a'}},
    {'the_bool': {'the_bool': 'true'}},
]
KIND_TYPES = ['Num', 'Str', 'Bool']


def parse_skeleton(text):
  parse.TOO_MUCH = 'too much'
  return parse.ParseFile(text)['rule']


def substitute(rules, kinds, fields=None):
  """placeholder literal 900i -> literal of kind kinds[i]; placeholder field name fNi ->
  fields[i]"""
  rules = copy.deepcopy(rules)

  def walk(n):
    if isinstance(n, dict):
      if 'literal' in n and 'the_number' in n['literal']:
        num = n['literal']['the_number']['number']
        if isinstance(num, str) and num.startswith('900'):
          i = int(num[3:])
          n['literal'] = copy.deepcopy(KIND_NODES[kinds[i]])
      if fields is not None and 'subscript' in n and isinstance(n['subscript'], dict):
        s = n['subscript'].get('subscript', {})
        sym = s.get('literal', {}).get('the_symbol', {})
        if isinstance(sym.get('symbol'), str) and sym['symbol'].startswith('fff'):
          sym['symbol'] = fields[int(sym['symbol'][3:])]
      for v in list(n.values()):
        walk(v)
    elif isinstance(n, list):
      for v in n:
        walk(v)
  walk(rules)
  return rules


def outcome(rules):
  """-> ('error', None) or ('ok', engine)"""
  e = infer.TypesInferenceEngine(rules, 'sqlite')
  e.InferTypes()
  try:
    infer.TypeErrorChecker(rules).CheckForError(mode='raise')
  except infer.TypeErrorCaughtException:
    return 'error', None
  return 'ok', e


def classes_clash(kinds, classes, fixed=None):
  """classes: lists of occurrence indices that must agree; fixed: {class index: required kind}"""
  for ci, cl in enumerate(classes):
    ks = set(kinds[i] for i in cl)
    if fixed and ci in fixed:
      ks.add(fixed[ci])
    if len(ks) > 1:
      return True
  return False


def signature_of(engine, pred):
  from type_inference.research import reference_algebra
  sig = engine.predicate_signature.get(pred)
  return {k: reference_algebra.RenderType(reference_algebra.VeryConcreteType(v)) for k, v in sig.items()}
'''

# (name, program text with placeholders 9000.., classes of must-agree occurrences,
#  {class: required kind}, expected signature function or None)
SKELETONS = [
    ('unify_chain', 'T(x) :- x == 9000, y == x, y == 9001, z == 9002;\n', [[0, 1], [2]], {}, ('T', {0: 0})),
    ('unify_chain_rev', 'T(x) :- z == 9002, y == 9001, y == x, x == 9000;\n', [[0, 1], [2]], {}, ('T', {0: 0})),
    ('facts_and_call', 'P(9000);\nP(9001);\nQ(x) :- P(x), x == 9002;\n', [[0, 1, 2]], {}, ('Q', {0: 0})),
    ('call_before_facts', 'Q(x) :- P(x), x == 9002;\nP(9000);\nP(9001);\n', [[0, 1, 2]], {}, ('Q', {0: 0})),
    ('multi_rule_caller_first', 'Label(x) :- Tag(x);\nLabel(9000);\nTag(9001);\nTag(9002);\n', [[0, 1, 2]], {}, ('Label', {0: 0})),
    ('multi_rule_callee_first', 'Tag(9001);\nTag(9002);\nLabel(9000);\nLabel(x) :- Tag(x);\n', [[0, 1, 2]], {}, ('Label', {0: 0})),
    ('list_literal', 'T(x) :- x in [9000, 9001], x == 9002;\n', [[0, 1, 2]], {}, ('T', {0: 0})),
    ('arith', 'T(9000 + 9001, y) :- y == 9002;\n', [[0, 1], [2]], {0: 0}, ('T', {1: 2})),
    ('if_then_else', 'T(x) :- x == (if 9000 == 9001 then 9002 else 9003);\n', [[0, 1], [2, 3]], {}, ('T', {0: 2})),
    ('record_field', 'T(y) :- r == {a: 9000, b: 9001}, y == r.a, y == 9002;\n', [[0, 2], [1]], {}, ('T', {0: 0})),
    ('aggregation', 'T(x, s? += 9000) distinct :- x == 9001;\nQ(y) :- T(y, s: z), z == 9002;\n', [[0, 2], [1]], {0: 0}, ('T', {0: 1})),
    ('combine', 'T(x, s) :- x == 9000, s Max= (9001 :- y == 9002, y == x);\n', [[0, 2], [1]], {}, ('T', {0: 0, 1: 1})),
    ('sibling_combines', 'T(x, a, b) :- x == 9000, a Max= (9001 :- y == 9001), b Max= (z :- z == 9002, z == x);\n', [[0, 2], [1]], {}, ('T', {0: 0, 1: 1, 2: 2})),
    ('sibling_combines_rev', 'T(x, a, b) :- x == 9000, b Max= (z :- z == 9002, z == x), a Max= (9001 :- y == 9001);\n', [[0, 2], [1]], {}, ('T', {0: 0, 1: 1, 2: 2})),
    ('sibling_combines_outer_value', 'T(x, a, b) :- x == 9000, a Max= (9001 :- y == 9001), b Max= (x :- z == 9002);\n', [[0], [1], [2]], {}, ('T', {0: 0, 1: 1, 2: 0})),
    # typing literals `x ~ Num / Str / Bool` constrain like any other occurrence (added after seeded change C05-r7)
    ('typing_bool', 'T(x) :- x == 9000, x ~ Bool;\n', [[0]], {0: 2}, ('T', {0: 0})),
    ('typing_num_first', 'T(x) :- x ~ Num, x == 9000;\n', [[0]], {0: 0}, ('T', {0: 0})),
    ('typing_str_callee', 'P(9000);\nT(x) :- P(x), x ~ Str;\n', [[0]], {0: 1}, ('T', {0: 0})),
    ('injected', 'F(x) = x :- x == 9000;\nT(y) :- y == F(9001), y == 9002;\n', [[0, 1, 2]], {}, ('T', {0: 0})),
]


def skeleton_fn(idx):
  name, text, classes, fixed, sig = SKELETONS[idx]
  k = 1 + max(i for cl in classes for i in cl)
  args = ', '.join('k%d: int' % i for i in range(k))
  pre = ' and '.join('0 <= k%d <= 2' % i for i in range(k))
  fn = 'k_types_%s' % name
  sig_check = 'True'
  if sig is not None:
    pred, cols = sig
    sig_check = ' and '.join("got.get(%r) == KIND_TYPES[kinds[%d]]" % (c, occ)
                             for c, occ in cols.items())
  src = '''
RULES_%(name)s = parse_skeleton(%(text)r)


def %(fn)s(%(args)s) -> bool:
  """
  pre: %(pre)s
  post: _
  """
  kinds = [%(kl)s]
  rules = substitute(RULES_%(name)s, kinds)
  verdict, engine = outcome(rules)
  clash = classes_clash(kinds, %(classes)r, %(fixed)r)
  if clash:
    return verdict == 'error'
  if verdict != 'ok':
    return False
  got = signature_of(engine, %(pred)r)
  return %(sig_check)s
''' % dict(name=name, text=text, fn=fn, args=args, pre=pre, kl=', '.join('k%d' % i for i in range(k)),
           classes=classes, fixed=fixed, pred=(sig[0] if sig else ''), sig_check=sig_check)
  return fn, src


RECORD_FIELDS = r'''
RULES_fields = parse_skeleton('Item({a: 1, b: "s"});\nReport(x, y) :- Item(r), x == r.fff0, y == r.fff1;\n')
RULES_fields_rev = parse_skeleton('Item({a: 1, b: "s"});\nReport(x, y) :- Item(r), y == r.fff1, x == r.fff0;\n')
FIELDS = ['a', 'b', 'c']


def k_types_closed_record_fields(f0: int, f1: int, rev: bool) -> bool:
  """
  pre: 0 <= f0 <= 2 and 0 <= f1 <= 2
  post: _
  """
  rules = substitute(RULES_fields_rev if rev else RULES_fields, [], [FIELDS[f0], FIELDS[f1]])
  verdict, engine = outcome(rules)
  if f0 == 2 or f1 == 2:
    return verdict == 'error'      # field c does not exist in the closed record
  if verdict != 'ok':
    return False
  got = signature_of(engine, 'Report')
  want = {'a': 'Num', 'b': 'Str'}
  return got.get(0) == want[FIELDS[f0]] and got.get(1) == want[FIELDS[f1]]
'''
