"""C01 — compiled SQL returns exactly the multiset the program denotes."""
from . import tvrun
from .. import corpus

FUNCTIONS = [
    'parser_py/parse.py: ParseFile (whole parser, concretely per catalogue program)',
    'compiler/universe.py: LogicaProgram.__init__, FormattedPredicateSql, PredicateSql, SingleRuleSql, RunInjections, SubqueryTranslator',
    'compiler/rule_translate.py: ExtractRuleStructure, ElliminateInternalVariables, UnificationsToConstraints, AsSql',
    'compiler/expr_translate.py: QL.ConvertToSql',
    'emitted SQLite SQL text (symbolically evaluated by lv/sqlsem.py over D(K))',
]
ASSUMPTIONS = [
    'program shape is drawn from the seeded catalogue families "core" and "exprs" (`else if` chains with overlapping conditions and repeated values, nested negations; lv/gen.py), not symbolic',
    'database: <=K rows per extensional table (K=2, lowered to 1 when the slot budget is exceeded), integer cells in [-2^20,2^20], no NULLs',
    'Range(n) unrolled to n<=3 (assumed in the query)',
    'trusted: lv/sqlsem.py semantics of the SQL subset (validated against real SQLite on seeded concrete databases each run), lv/refsem.py reading of docs/learn/logica.md, z3',
    'encoder self-test on the repository\'s own inputs: the 29 integration_tests/sqlite_*.l programs are compiled and run on real SQLite (rendering compared with the golden .txt); for those whose SQL falls inside the modelled subset the model\'s evaluation must equal real SQLite\'s rows',
    'outside the claim: strings beyond equality-compared constants, / and %, floats, programs outside the family, more than K rows',
]


def run():
  return tvrun.run_tv('C01', {'core': (80, 2000, None), 'exprs': (8, 64, None)}, FUNCTIONS, ASSUMPTIONS, 'DESIGN.md §3 C01',
                      extra_fn=corpus.run)


def replay(path):
  return tvrun.replay_tv(path)
