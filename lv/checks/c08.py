"""C08 — plan-selecting annotations never change results."""
from . import pairrun

FUNCTIONS = [
    'compiler/universe.py: LogicaProgram.RunInjections, InjectStructure, Annotations.OkInjection/NoInject/With/Ground, SubqueryTranslator.TranslateTable, TranslateWithedTable, TranslateTableAttachedToFile, GenerateWithClauses',
    'compiler/rule_translate.py: ExtractRuleStructure (extract_ variables), DisambiguateCombineVariables, ElliminateInternalVariables',
]
ASSUMPTIONS = [
    'each pair = a catalogue program (family "layered": 1-3 intermediates with joins, negation, aggregating expressions nested in negations, combines, in, records, several rules, distinct, aggregation, functional values, read by consumers whose variable names collide with the intermediates\' local names; and family "core") compiled with its default plan and with a seeded assignment of {none, @NoInject, @With, @NoWith, @Ground} to its intermediate predicates',
    '@Ground plans are multi-statement scripts (DROP/CREATE TABLE logica_test.P AS ...) run by the symbolic statement interpreter',
    'pairs whose two SQL texts are identical are counted trivial (the plan did not change)',
    'z3 proves both plans return the same multiset on all databases with <=K rows per table (K=2)',
    'trusted: lv/sqlsem.py, z3',
]


def run():
  return pairrun.run_pairs('C08', [('lv.gen_meta', 'c08_pairs', 120, 2400), ('lv.gen_meta', 'c08_shared_with_pairs', 8, 64)], FUNCTIONS, ASSUMPTIONS,
                           'DESIGN.md §3 C08',
                           rejected_is_violation=lambda r: r.get('rejected_side') == 'b')


def replay(path):
  return pairrun.replay_pair(path)
