"""C12 — imports isolate modules and mean the same as one flattened program."""
from . import pairrun
from .. import framework as fw, kernels

FUNCTIONS = [
    'parser_py/parse.py: ParseFile (import statements, prefix loop, RenamePredicate, DefinedPredicates, MadePredicates, alias resolution), SplitImport, ParseImport',
    'logica.py GetImportRoot semantics through import_root lists',
]
ASSUMPTIONS = [
    'part (a): import layouts written to a scratch directory (chain, diamond, same private predicate name in several files and in main, the same private multi-body aggregation in two modules and main, two files sharing a base name in different directories, alias of a predicate whose name is also imported from another file, two import roots, a predicate applied to its own result next to a same-named predicate in main); module bodies are seeded; the flattened single-file program is produced by the generator with its own unique names; z3 proves split == flattened on every database with <=2 rows per table',
    'part (b): CrossHair over the real ParseFile prefix loop: every ordered pair of distinct import paths with <=2 (quick) / <=3 (thorough) parts over the alphabet {a, b, util}: no exception, non-empty and distinct prefixes; claimed only on "Confirmed over all paths"',
    'part (c): CrossHair over the real ParseFile: 15 harness functions (3 textual orders of three imports x 5 scenarios: plain, an undefined imported predicate, a redefinition in main, a circular import, a module redefining a predicate it imports after a used import), each with 5 symbolic bits (which imports are used, which carry an alias); the bits are branched on and the parse of the resulting concrete text runs natively (32 paths per function): rejected with ParsingException exactly when the documented rules say so; this is solver-driven enumeration of a finite configuration space, claimed only on "Confirmed over all paths"',
    'outside: the C++ parser; import graphs beyond the enumerated layouts',
]

KERNEL_HEAD = '''
from parser_py import parse

ALPH = ['a', 'b', 'util']


def both(pa, pb):
  if pa == pb:
    return True
  imports = {}
  ra = parse.ParseFile('', pa, imports)
  imports[pa] = ra
  rb = parse.ParseFile('', pb, imports)
  return (ra['predicates_prefix'] != rb['predicates_prefix'] and ra['predicates_prefix'] != ''
          and rb['predicates_prefix'] != '')
'''


def kernel_fn(la, lb):
  args = ['a%d: int' % i for i in range(la)] + ['b%d: int' % i for i in range(lb)]
  pre = ' and '.join('0 <= %s <= 2' % a.split(':')[0] for a in args)
  return '''

def k_prefix_%d_%d(%s) -> bool:
  """
  pre: %s
  post: _
  """
  pa = '.'.join([%s])
  pb = '.'.join([%s])
  return both(pa, pb)
''' % (la, lb, ', '.join(args), pre, ', '.join('ALPH[a%d]' % i for i in range(la)),
       ', '.join('ALPH[b%d]' % i for i in range(lb)))


def replay_prefix(name, args):
  from ..real import parse
  alph = ['a', 'b', 'util']
  _, la, lb = name.rsplit('_', 2)
  la, lb = int(la), int(lb)
  vals = [int(x.split('=')[-1]) for x in args.split(',')]
  pa = '.'.join(alph[v] for v in vals[:la])
  pb = '.'.join(alph[v] for v in vals[la:la + lb])
  imports = {}
  try:
    ra = parse.ParseFile('', pa, imports)
    imports[pa] = ra
    rb = parse.ParseFile('', pb, imports)
  except BaseException as e:  # noqa: BLE001
    return True, 'importing %s then %s raises %s' % (pa, pb, type(e).__name__), {'paths': [pa, pb], 'exception': repr(e)}
  same = ra['predicates_prefix'] == rb['predicates_prefix']
  return same, 'prefixes %r %r' % (ra['predicates_prefix'], rb['predicates_prefix']), {'paths': [pa, pb]}


REJECT_KERNEL = '''
import os, tempfile
from parser_py import parse

ROOT = tempfile.mkdtemp(prefix='logica_verif_c12k_')
FILES = {
    'm1.l': 'P1(x) :- x in [1];\\nP2(x) :- x in [2];\\n',
    'm2.l': 'Q1(x) :- x in [3];\\n',
    'c1.l': 'import c2.C2;\\nC1(x) :- C2(x);\\n',
    'c2.l': 'import c1.C1;\\nC2(x) :- C1(x) | x in [1];\\n',
    # a module that redefines a predicate it imports, after a used import
    'r1.l': 'import m2.Q1;\\nimport m1.P1;\\nR1(x) :- Q1(x);\\nP1(x) :- x in [777];\\nR2(x) :- P1(x);\\n',
}
for _n, _t in FILES.items():
  with open(os.path.join(ROOT, _n), 'w') as _f:
    _f.write(_t)


def reject_ok(use0, use1, use2, alias0, alias2, order, undefined, redefine, circular, module_redefines):
  imports = [('m1', 'P1', 'A0' if alias0 else None, use0),
             ('m1', 'P2', None, use1),
             ('m2', 'Q1', 'A2' if alias2 else None, use2)]
  imports = imports[order:] + imports[:order]
  lines = ['@Engine("sqlite");']
  body = ['x in [0]']
  for f, p, a, used in imports:
    lines.append('import %s.%s%s;' % (f, p, (' as ' + a) if a else ''))
    if used:
      body.append('%s(x)' % (a or p))
  if undefined:
    lines.append('import m2.Nope;')
    body.append('Nope(x)')
  if circular:
    lines.append('import c1.C1;')
    body.append('C1(x)')
  if module_redefines:
    lines.append('import r1.R2;')
    body.append('R2(x)')
  lines.append('T(x) :- %s;' % ', '.join(body))
  if redefine:
    lines.append('Q1(x) :- x in [9];' if not alias2 else 'Helper(x) :- x in [9];')
  text = '\\n'.join(lines) + '\\n'
  expect_reject = ((not use0) or (not use1) or (not use2) or undefined or circular or module_redefines
                   or (redefine and not alias2))
  parse.TOO_MUCH = 'too much'
  try:
    parse.ParseFile(text, import_root=ROOT + '/')
    rejected = False
  except parse.ParsingException:
    rejected = True
  return rejected == expect_reject
'''


def replay_reject(name, args):
  import subprocess, sys, tempfile, os
  from .. import kern
  # re-run the harness body concretely in a fresh interpreter on the real code
  d = tempfile.mkdtemp(prefix='logica_verif_c12r_')
  try:
    p = os.path.join(d, 'replay.py')
    with open(p, 'w') as f:
      f.write(kern.PRELUDE % os.environ.get('VERIF_REPO', '/repo') + reject_source()[0] +
              '\nimport sys\nsys.exit(0 if %s(%s) else 7)\n' % (name, args))
    r = subprocess.run([sys.executable, p], stdout=subprocess.PIPE, stderr=subprocess.STDOUT, text=True)
    return r.returncode == 7, 'import acceptance differs from the documented rejection rules for %s(%s)' % (name, args), {'call': '%s(%s)' % (name, args), 'output': r.stdout[-500:]}
  finally:
    import shutil
    shutil.rmtree(d, ignore_errors=True)


SCENARIOS = ['plain', 'undefined', 'redefine', 'circular', 'modred']


def reject_source():
  from .. import variants
  src = REJECT_KERNEL + variants.UNTRACED
  names = []
  for order in range(3):
    for sc in SCENARIOS:
      n = 'k_reject_%d_%s' % (order, sc)
      names.append(n)
      src += '''

def %s(use0: bool, use1: bool, use2: bool, alias0: bool, alias2: bool) -> bool:
  """
  post: _
  """
  # the five choices are branched on here; the parse itself then runs on concrete text, natively
  u0, u1, u2 = (True if use0 else False), (True if use1 else False), (True if use2 else False)
  a0, a2 = (True if alias0 else False), (True if alias2 else False)
  with untraced():
    return reject_ok(u0, u1, u2, a0, a2, %d, %s, %s, %s, %s)
''' % (n, order, sc == 'undefined', sc == 'redefine', sc == 'circular', sc == 'modred')
  return src, names


def kernel_part(out):
  src, names = reject_source()
  kernels.run_kernels(out, 'import rejection rules', src, names, 1500, replay_reject)
  depth = 3 if fw.tier() == 'thorough' else 2
  src = KERNEL_HEAD
  names = []
  for la in range(1, depth + 1):
    for lb in range(1, depth + 1):
      src += kernel_fn(la, lb)
      names.append('k_prefix_%d_%d' % (la, lb))
  kernels.run_kernels(out, 'import prefix loop', src, names, 1800 if depth == 3 else 900, replay_prefix)


def run():
  return pairrun.run_pairs('C12', [('lv.gen_meta', 'c12_pairs', 40, 1000)], FUNCTIONS, ASSUMPTIONS,
                           'DESIGN.md §3 C12', rejected_is_violation=lambda r: r.get('rejected_side') == 'a',
                           extra_fn=kernel_part)


def replay(path):
  return pairrun.replay_pair(path)
