"""CrossHair harness source for C10: literal parsing and flag handling on the real code."""

HEAD = r'''
from parser_py import parse
from compiler import universe, expr_translate, rule_translate


class FakeDialect(object):
  def __init__(self, name):
    self.name = name

  def Name(self):
    return self.name


class FakeQL(object):
  def __init__(self, name):
    self.dialect = FakeDialect(name)


def lit(dialect, s):
  return expr_translate.QL.StrLiteral(FakeQL(dialect), {'the_string': s})


class FakeProgram(object):
  def __init__(self, flag_values):
    self.flag_values = flag_values


def annotations_with(defaults, user_flags):
  a = object.__new__(universe.Annotations)
  a.annotations = {'@DefineFlag': {k: ({'1': v} if v is not None else {}) for k, v in defaults.items()},
                   '@ResetFlagValue': {}}
  a.user_flags = user_flags
  return a
'''

BODY = r'''

def k_parse_string_dq(t: str) -> bool:
  """
  pre: 2 <= len(t) <= 6
  post: _
  """
  # t ranges over every text of the form "body" with no quote in the body
  n = len(t)
  if not (t[0] == '"' and t[n - 1] == '"') or t.count('"') != 2:
    return True
  r = parse.ParseString(t)
  return r is not None and list(r) == ['the_string'] and r['the_string'] == t[1:n - 1]


def k_parse_string_triple(t: str) -> bool:
  """
  pre: 6 <= len(t) <= 9
  post: _
  """
  n = len(t)
  if not (t[0] == '"' and t[1] == '"' and t[2] == '"' and t[n - 1] == '"' and t[n - 2] == '"' and t[n - 3] == '"'):
    return True
  body = t[3:n - 3]
  if '"' in body:
    return True
  r = parse.ParseString(t)
  return r is not None and list(r) == ['the_string'] and r['the_string'] == body


ESCAPES = [(chr(92) + "'", "'"), (chr(92) + chr(92), chr(92)), (chr(92) + 'n', chr(10)), (chr(92) + 't', chr(9))]


class _LiteralEvalEscapes(object):
  """ast.literal_eval on single-quoted literals whose only backslash sequences are the four in
  ESCAPES (contract = Python's string literal semantics; validated against the interpreter)."""

  @staticmethod
  def literal_eval(s):
    n = len(s)
    assert s[0] == "'" and s[n - 1] == "'"
    out = []
    i = 1
    while i < n - 1:
      ch = s[i]
      if ch == chr(92):
        nx = s[i + 1]
        assert i + 1 < n - 1
        if nx == "'":
          out.append("'")
        elif nx == chr(92):
          out.append(chr(92))
        elif nx == 'n':
          out.append(chr(10))
        else:
          assert nx == 't'
          out.append(chr(9))
        i += 2
      else:
        assert ch != "'" and ch != chr(10) and ch != chr(13)
        out.append(ch)
        i += 1
    return ''.join(out)


def sq_escape_is_data(t, e, pos, lo, hi):
  for ch in t:
    o = ord(ch)
    if o < lo or o > hi or ch == "'" or ch == chr(92) or o == 10 or o == 13 or 0xD800 <= o <= 0xDFFF:
      return True
  esc, dec = ESCAPES[e]
  body = t[:pos] + esc + t[pos:]
  want = t[:pos] + dec + t[pos:]
  saved = parse.ast
  parse.ast = _LiteralEvalEscapes
  try:
    r = parse.ParseString("'" + body + "'")
  finally:
    parse.ast = saved
  return r is not None and list(r) == ['the_string'] and r['the_string'] == want


def k_parse_string_sq_escape_ascii(t: str, e: int, pos: int) -> bool:
  """
  pre: len(t) <= 2 and 0 <= e <= 3 and 0 <= pos <= len(t)
  post: _
  """
  return sq_escape_is_data(t, e, pos, 0x20, 0x7f)


def k_parse_string_sq_escape_nonascii(t: str, e: int, pos: int) -> bool:
  """
  pre: 1 <= len(t) <= 2 and 0 <= e <= 3 and 0 <= pos <= len(t)
  post: _
  """
  return sq_escape_is_data(t, e, pos, 0x80, 0x2ff)


class _LiteralEvalContract(object):
  """Stub for the environment function ast.literal_eval on the sub-domain used here: a
  single-quoted Python literal whose body has no backslash, quote or line break denotes its
  body (validated against the interpreter on every run by c10.validate_literal_eval)."""

  @staticmethod
  def literal_eval(s):
    n = len(s)
    body = s[1:n - 1]
    assert s[0] == "'" and s[n - 1] == "'"
    for ch in body:
      assert ch != "'" and ch != chr(92) and ch != chr(10) and ch != chr(13)
    return body


def sq_literal_is_data(t, lo, hi):
  # every character of the body lies in the code point class [lo, hi] and is not special
  for ch in t:
    o = ord(ch)
    if o < lo or o > hi or ch == "'" or ch == chr(92) or o == 10 or o == 13 or 0xD800 <= o <= 0xDFFF:
      return True
  saved = parse.ast
  parse.ast = _LiteralEvalContract
  try:
    r = parse.ParseString("'" + t + "'")
  finally:
    parse.ast = saved
  return r is not None and list(r) == ['the_string'] and r['the_string'] == t


def k_parse_string_sq_ascii(t: str) -> bool:
  """
  pre: 1 <= len(t) <= 3
  post: _
  """
  return sq_literal_is_data(t, 0x20, 0x7f)


def k_parse_string_sq_latin1(t: str) -> bool:
  """
  pre: 1 <= len(t) <= 2
  post: _
  """
  return sq_literal_is_data(t, 0x80, 0xff)


def k_parse_string_sq_bmp(t: str) -> bool:
  """
  pre: 1 <= len(t) <= 2
  post: _
  """
  return sq_literal_is_data(t, 0x100, 0xffff)


def k_parse_string_sq_astral(t: str) -> bool:
  """
  pre: len(t) == 1
  post: _
  """
  return sq_literal_is_data(t, 0x10000, 0x10ffff)


def k_parse_string_never_mixes(s: str) -> bool:
  """
  pre: len(s) <= 4
  post: _
  """
  # something that is not a literal at all is not reported as one
  if s[:1] == "'":
    return True       # single-quoted literals are decoded by ast.literal_eval (outside the claim)
  r = parse.ParseString(s)
  if r is None:
    return True
  return len(s) >= 2 and s[0] == s[-1] and s[0] in ('"', "'")


def k_user_flag_overrides(value: str, default: str, has_default: bool) -> bool:
  """
  pre: len(value) <= 3 and len(default) <= 2
  post: _
  """
  a = annotations_with({'f': default if has_default else None, 'g': 'G'}, {'f': value})
  fv = a.BuildFlagValues()
  return fv['f'] == value and fv['g'] == 'G'


def k_default_flag_kept(default: str) -> bool:
  """
  pre: len(default) <= 3
  post: _
  """
  a = annotations_with({'f': default, 'g': None}, {})
  fv = a.BuildFlagValues()
  return fv['f'] == default and fv['g'] == '${g}'


def k_undefined_flag_rejected(pick: int, value: str) -> bool:
  """
  pre: 0 <= pick < 4 and len(value) <= 2
  post: _
  """
  name = ['x', 'F', 'ff', 'g '][pick]
  a = annotations_with({'f': 'd'}, {name: value})
  try:
    a.BuildFlagValues()
  except rule_translate.RuleCompileException:
    return True
  return False


def k_flag_value_is_data(value: str) -> bool:
  """
  pre: len(value) <= %(FLAGLEN)d
  post: _
  """
  # a flag value that does not spell ${f} or ${g} reaches the SQL as the literal of itself,
  # whatever else it contains; substitution terminates
  flags = {'f': value, 'g': 'G'}
  sql = 'SELECT ' + lit('SqLite', value) + ' AS x'
  if '${f}' in sql or '${g}' in sql:
    return True
  out = universe.LogicaProgram.UseFlagsAsParameters(FakeProgram(flags), sql)
  return out == sql


def k_dollar_form_expanded(value: str) -> bool:
  """
  pre: len(value) <= 3
  post: _
  """
  if '$' in value or '{' in value:
    return True
  flags = {'f': value}
  out = universe.LogicaProgram.UseFlagsAsParameters(FakeProgram(flags), 'a ${f} b ${f}')
  return out == 'a ' + value + ' b ' + value


def k_function_args_verbatim(a: str, b: str) -> bool:
  """
  pre: len(a) <= 1 and len(b) <= 1
  post: _
  """
  q = FakeQL('SqLite')
  f1 = expr_translate.QL.Function(q, 'F({0}, {1})', {0: a, 1: b}) == 'F(' + a + ', ' + b + ')'
  f2 = expr_translate.QL.Function(q, 'G(%s)', {0: a, 1: b}) == 'G(' + a + ', ' + b + ')'
  i1 = expr_translate.QL.Infix(q, '(%s) || (%s)', {'left': a, 'right': b}) == '(' + a + ') || (' + b + ')'
  i2 = expr_translate.QL.Infix(q, '{left} = ANY({right})', {'left': a, 'right': b}) == a + ' = ANY(' + b + ')'
  return f1 and f2 and i1 and i2
'''

NAMES = ['k_parse_string_dq', 'k_parse_string_triple', 'k_parse_string_sq_ascii', 'k_parse_string_sq_latin1',
         'k_parse_string_sq_bmp', 'k_parse_string_sq_astral', 'k_parse_string_sq_escape_ascii',
         'k_parse_string_sq_escape_nonascii', 'k_parse_string_never_mixes', 'k_user_flag_overrides',
         'k_default_flag_kept', 'k_undefined_flag_rejected', 'k_flag_value_is_data', 'k_dollar_form_expanded',
         'k_function_args_verbatim']


# ---- strings passed through built-in templates (QL.Function / QL.Infix) stay data
ARGS_DATA = r'''
from compiler import universe as _u
from common import sqlite3_logica as _s3

NASTY = ['x{1}y', '{0}', '{1}', 'a{}b', '%s', '100%', '%(x)s', '$f {f}', '{left}', "it's", 'a' + chr(92) + 'b', '{right} {0} %d']
TEMPLATES = [
    ('T(Join([%(s)s, "b"], "-"));', lambda s: s + '-b'),
    ('T(Join(["b", "c"], %(s)s));', lambda s: 'b' + s + 'c'),
    ('T(%(s)s ++ "z");', lambda s: s + 'z'),
    ('T("z" ++ %(s)s);', lambda s: 'z' + s),
    ('T(Element([%(s)s, "q"], 0));', lambda s: s),
    ('T(Element(["q", %(s)s], 1));', lambda s: s),
    ('T(if %(s)s == %(s)s then %(s)s else "n");', lambda s: s),
    ('T(Greatest(%(s)s, ""));', lambda s: s),
    ('T(x) :- x in ["q", %(s)s], x != "q";', lambda s: s),
    ('T(Like(%(s)s, "%%"));', lambda s: 1),
    ('T(ToString(%(s)s));', lambda s: s),
    ('T(Size([%(s)s, %(s)s]));', lambda s: 2),
]


def arg_is_data(si, ti):
  s = NASTY[si]
  tmpl, expect = TEMPLATES[ti]
  text = '@Engine("sqlite");\n' + tmpl % dict(s='"' + s + '"') + '\n'
  parse.TOO_MUCH = 'too much'
  prog = _u.LogicaProgram(parse.ParseFile(text)['rule'])
  prog.FormattedPredicateSql('T')
  ex = prog.execution
  con = _s3.SqliteConnect()
  try:
    cur = con.cursor()
    for st in [ex.preamble] + list(ex.defines_and_exports):
      if st.strip():
        cur.executescript(st)
    rows = cur.execute(ex.main_predicate_sql).fetchall()
  finally:
    con.close()
  return rows == [(expect(s),)]


def k_builtin_args_are_data(si: int, ti: int) -> bool:
  """
  pre: 0 <= si < len(NASTY) and 0 <= ti < len(TEMPLATES)
  post: _
  """
  a = concretise(si, len(NASTY))
  b = concretise(ti, len(TEMPLATES))
  with untraced():
    return arg_is_data(a, b)
'''


def args_data_source():
  from .. import variants
  return HEAD + variants.UNTRACED + ARGS_DATA, ['k_builtin_args_are_data']
