"""Shared runner for the metamorphic checks (C04, C07a, C08, C11, C12a, C17, C18)."""
import json
import multiprocessing as mp
import time
import traceback

from .. import framework as fw


def _work(job):
  prop, module, genname, s, timeout_ms = job
  import importlib
  from .. import meta
  try:
    mod = importlib.import_module(module)
    pairs = getattr(mod, genname)(s)
  except Exception:  # noqa: BLE001
    return {'seed': s, 'gen': genname, 'results': [
        {'label': 'generator', 'status': 'harness_error', 'why': traceback.format_exc()[-1200:]}]}
  out = []
  for p in pairs:
    kw = dict(p)
    a = kw.pop('a')
    b = kw.pop('b')
    post = kw.pop('post', None)
    r = meta.validate_pair(prop, a, b, timeout_ms=timeout_ms, **kw)
    K = kw.get('K', 2)
    while K > 1 and r['status'] == 'not_encodable' and 'slot budget' in r.get('why', ''):
      K -= 1
      kw['K'] = K
      r = meta.validate_pair(prop, a, b, timeout_ms=timeout_ms, **kw)
    r['text_a'] = a.text
    r['text_b'] = b.text
    out.append(r)
  return {'seed': s, 'gen': genname, 'results': out}


def run_pairs(prop, gens, functions, assumptions, design_ref, rejected_is_violation=None,
              level='translation_validation', extra=None, extra_fn=None):
  """gens: [(module, generator function name, n_quick, n_thorough)].  Each generator maps a
  seed to a list of pair specs (dicts for meta.validate_pair)."""
  t0 = time.time()
  out = fw.Outcome(prop, level, t0)
  thorough = fw.tier() == 'thorough'
  timeout_ms = 300000 if thorough else 60000
  base = fw.seed() * 1000003
  jobs = []
  for module, genname, nq, nt in gens:
    for i in range(nt if thorough else nq):
      jobs.append((prop, module, genname, base + i, timeout_ms))
  with mp.Pool(fw.nproc()) as pool:
    results = pool.map(_work, jobs, chunksize=1)
  counts = {}
  per_gen = {}
  queries = 0
  solver_s = 0.0
  distinct = set()
  samples = []
  total = 0
  for res in results:
    for r in res['results']:
      total += 1
      st = r['status']
      counts[st] = counts.get(st, 0) + 1
      pg = per_gen.setdefault(res['gen'], {})
      pg[st] = pg.get(st, 0) + 1
      queries += r.get('queries', 0)
      solver_s += r.get('solver_s', 0.0)
      if st == 'proved':
        distinct.add((r.get('text_a'), r.get('text_b'), r.get('pred')))
        if len(samples) < 4:
          samples.append({'label': r.get('label'), 'program_a': r.get('text_a'),
                          'program_b': r.get('text_b'), 'predicates': r.get('pred'),
                          'K': r.get('K'), 'slots': r.get('slots'), 'verdict': 'unsat'})
      elif st == 'violation':
        rep = r.get('replay', {})
        rep['seed'] = res['seed']
        rep['generator'] = res['gen']
        out.violation('%s seed %d %s: %s' % (res['gen'], res['seed'], r.get('label'), r.get('kind')), rep)
      elif st in ('rejected', 'compiler_crash') and rejected_is_violation and rejected_is_violation(r):
        rep = {'property': prop, 'label': r.get('label'), 'program_a': r.get('text_a'),
               'program_b': r.get('text_b'), 'why': r.get('why'), 'seed': res['seed'],
               'generator': res['gen'], 'kind': 'one side rejected'}
        out.violation('%s seed %d %s: one side rejected: %s' % (
            res['gen'], res['seed'], r.get('label'), r.get('why', '')[:200]), rep)
      elif st == 'harness_error':
        out.harness_errors.append('%s seed %s %s: %s\n%s' % (
            res['gen'], res['seed'], r.get('label'), r.get('why'),
            json.dumps(r.get('detail'), default=repr)[:2500] if r.get('detail') else
            (r.get('text_a', '') + '\n---\n' + r.get('text_b', ''))))
      elif st == 'unknown':
        out.inconclusive.append('%s seed %s %s: solver unknown/timeout' % (res['gen'], res['seed'], r.get('label')))
  out.coverage.update({
      'programs': len(distinct) + counts.get('trivial', 0),
      'pairs_checked': total,
      'disagreements_checked': queries,
      'evaluations': queries,
      'distinct_nontrivial': len(distinct),
      'rule': ('one case = a pair (program A, predicate; program B, predicate) that must agree; distinct by both '
               'texts; non-trivial = witness query sat (result non-empty on some database) and the pair proved equal '
               'on all databases within the bound'),
      'status_counts': counts,
      'per_generator': per_gen,
      'samples': samples or [{'note': 'no proved pair'}],
      'solver_s': round(solver_s, 2),
      'functions_encoded': functions,
      'bounds': {'tier': fw.tier(), 'generators': {g[1]: (g[3] if thorough else g[2]) for g in gens},
                 'cell_range': '[-2^20, 2^20]', 'slot_budget': 400, 'z3_timeout_ms_per_query': timeout_ms},
      'explanation': ('both SQL texts are emitted by the real compiler; z3 is asked for a database within the bound on '
                      'which they return different rows; unsat = equal for all such databases; a model is replayed on '
                      'real SQLite before it is reported'),
      'design_ref': design_ref,
  })
  if extra:
    out.coverage.update(extra)
  if extra_fn:
    extra_fn(out)
  out.assumptions = assumptions
  ne = counts.get('not_encodable', 0) + counts.get('rejected', 0)
  if total and ne > 0.5 * total:
    out.inconclusive.append('%d of %d pairs not encodable or rejected' % (ne, total))
  return out.finish(max_inconclusive_fraction=0.1, total=total)


def replay_pair(path):
  from .. import e1, real
  with open(path) as f:
    rep = json.load(f)
  db = {k: [tuple(r) for r in v] for k, v in rep.get('db', {}).items()}
  for side in ('a', 'b'):
    text = rep['program_' + side]
    pred = rep.get('pred_' + side)
    print('--- program %s (%s)\n%s' % (side, pred, text))
    if pred is None:
      continue
    try:
      c = real.compile_pred(text, pred)
      hdr, rows = e1.run_real(c.statements(), rep['schema'], db)
      print('header:', hdr)
      print('rows:', e1.rows_key(rows))
    except Exception as e:  # noqa: BLE001
      print('error:', repr(e))
  print('database:', db)
  return 0
