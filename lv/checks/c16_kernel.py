"""CrossHair harness source for C16: reference_algebra.Unify on symbolic type terms."""

HEAD = r'''
from type_inference.research import reference_algebra as RA

ATOMS = ['Any', 'Singular', 'Sequential', 'Num', 'Str', 'Bool', 'Time']


# ---- harness-side term representation: ('atom', name) | ('list', t) | ('open'|'closed', ((field, t), ...))
def atom(i):
  return ('atom', ATOMS[i])


def fields_from(codes, names):
  out = []
  for name, c in zip(names, codes):
    if c > 0:
      out.append((name, sub_term(c - 1)))
  return tuple(out)


def sub_term(c):
  """field / element payload: 0..6 atoms, 7..13 lists of atoms (depth 2)"""
  if c < 7:
    return atom(c)
  return ('list', atom(c - 7))


def build(t):
  """harness term -> real TypeReference structure"""
  if t[0] == 'atom':
    return RA.TypeReference(t[1])
  if t[0] == 'list':
    return RA.TypeReference([build(t[1])])
  cls = RA.OpenRecord if t[0] == 'open' else RA.ClosedRecord
  return RA.TypeReference(cls({f: build(v) for f, v in t[1]}))


def read(c):
  """VeryConcreteType result -> harness term, or 'BAD'"""
  if isinstance(c, RA.BadType):
    return 'BAD'
  if isinstance(c, str):
    return ('atom', c)
  if isinstance(c, list):
    e = read(c[0])
    return 'BAD' if e == 'BAD' else ('list', e)
  if isinstance(c, dict):
    fs = []
    for f in sorted(c, key=str):
      v = read(c[f])
      if v == 'BAD':
        return 'BAD'
      fs.append((f, v))
    return ('closed' if isinstance(c, RA.ClosedRecord) else 'open', tuple(sorted(fs, key=lambda x: str(x[0]))))
  return 'BAD'


def norm(t):
  if t == 'BAD' or t is None:
    return t
  if t[0] in ('open', 'closed'):
    return (t[0], tuple(sorted(((f, norm(v)) for f, v in t[1]), key=lambda x: str(x[0]))))
  if t[0] == 'list':
    return ('list', norm(t[1]))
  return t


def meet(a, b):
  """independent structural specification; None = no common instance"""
  if a[0] == 'atom' and b[0] != 'atom':
    a, b = b, a
  if b[0] == 'atom':
    n = b[1]
    if a[0] == 'atom':
      m = a[1]
      if m == n:
        return a
      if m == 'Any':
        return b
      if n == 'Any':
        return a
      pair = set([m, n])
      if pair == set(['Singular', 'Sequential']):
        return ('atom', 'Str')
      if 'Singular' in pair:
        return ('atom', (pair - set(['Singular'])).pop())
      if pair == set(['Sequential', 'Str']):
        return ('atom', 'Str')
      return None
    if n == 'Any':
      return a
    if n == 'Singular':
      return None if a[0] == 'list' else a
    if n == 'Sequential':
      return a if a[0] == 'list' else None
    return None
  if a[0] == 'list' or b[0] == 'list':
    if a[0] == 'list' and b[0] == 'list':
      e = meet(a[1], b[1])
      return None if e is None else ('list', e)
    return None
  fa, fb = dict(a[1]), dict(b[1])
  if a[0] == 'closed' and b[0] == 'closed':
    if set(fa) != set(fb):
      return None
    kind = 'closed'
  elif a[0] == 'open' and b[0] == 'open':
    kind = 'open'
  else:
    o, c = (fa, fb) if a[0] == 'open' else (fb, fa)
    if not set(o) <= set(c):
      return None
    kind = 'closed'
  out = []
  for f in sorted(set(fa) | set(fb), key=str):
    if f in fa and f in fb:
      m = meet(fa[f], fb[f])
      if m is None:
        return None
    else:
      m = fa.get(f, fb.get(f))
    out.append((f, m))
  return (kind, tuple(out))


def outcome(ta, tb):
  ra, rb = build(ta), build(tb)
  RA.Unify(ra, rb)
  return read(RA.VeryConcreteType(ra)), read(RA.VeryConcreteType(rb)), ra, rb


def pair_ok(ta, tb):
  want = meet(ta, tb)
  want = norm(want) if want is not None else None
  va, vb, ra, rb = outcome(ta, tb)
  wa, wb, _, _ = outcome(tb, ta)
  clash = (va == 'BAD' or vb == 'BAD')
  clash_rev = (wa == 'BAD' or wb == 'BAD')
  # clash exactly when there is no common instance, in either argument order
  if clash != (want is None) or clash_rev != (want is None):
    return False
  if clash:
    return True
  # both sides denote the same type afterwards, it is the meet, in either order
  if not (norm(va) == norm(vb) == want and norm(wa) == norm(wb) == want):
    return False
  # repeating changes nothing
  RA.Unify(ra, rb)
  if not (norm(read(RA.VeryConcreteType(ra))) == want and norm(read(RA.VeryConcreteType(rb))) == want):
    return False
  RA.Unify(rb, ra)
  return norm(read(RA.VeryConcreteType(ra))) == want
'''

CTORS = ['atom', 'list', 'open', 'closed']


def term_expr(ctor, prefix, nfields, deep):
  """-> (argument declarations, precondition, expression building the harness term)"""
  hi = 13 if deep else 6
  if ctor == 'atom':
    return ['%s0: int' % prefix], ['0 <= %s0 <= 6' % prefix], 'atom(%s0)' % prefix
  if ctor == 'list':
    return ['%s0: int' % prefix], ['0 <= %s0 <= 6' % prefix], "('list', atom(%s0))" % prefix
  names = ['a', 0][:nfields]
  args = ['%s%d: int' % (prefix, i) for i in range(nfields)]
  pre = ['0 <= %s%d <= %d' % (prefix, i, hi + 1) for i in range(nfields)]
  expr = "('%s', fields_from([%s], %r))" % (ctor, ', '.join('%s%d' % (prefix, i) for i in range(nfields)), names)
  return args, pre, expr


def pair_fn(ca, cb, nfields=1, deep=False):
  aa, pa, ea = term_expr(ca, 'p', nfields, deep)
  ab, pb, eb = term_expr(cb, 'q', nfields, deep)
  name = 'k_unify_%s_%s_f%d%s' % (ca, cb, nfields, '_deep' if deep else '')
  src = '''

def %s(%s) -> bool:
  """
  pre: %s
  post: _
  """
  return pair_ok(%s, %s)
''' % (name, ', '.join(aa + ab), ' and '.join(pa + pb), ea, eb)
  return name, src


TRIPLES = '''

def clash_free(ts):
  acc = ts[0]
  for t in ts[1:]:
    acc = meet(acc, t)
    if acc is None:
      return None
  return norm(acc)


def triple_ok(c0, c1, c2, x0, x1, x2):
  def term(c, x):
    if c == 0:
      return atom(x)
    if c == 1:
      return ('list', atom(x))
    return ('open' if c == 2 else 'closed', (('a', atom(x)),))
  ts = [term(c0, x0), term(c1, x1), term(c2, x2)]
  want = clash_free(ts)
  if want is None:
    return True      # the claim is about clash-free sets of constraints
  import itertools
  for order in itertools.permutations(range(3)):
    refs = [build(t) for t in ts]
    # constraints are unified pairwise along the order: (o0,o1), then (o1,o2)
    RA.Unify(refs[order[0]], refs[order[1]])
    RA.Unify(refs[order[1]], refs[order[2]])
    for r in refs:
      if norm(read(RA.VeryConcreteType(r))) != want:
        return False
  return True
'''


def triple_fn(c0, c1, c2):
  name = 'k_unify_triple_%d%d%d' % (c0, c1, c2)
  return name, '''

def %s(x0: int, x1: int, x2: int) -> bool:
  """
  pre: 0 <= x0 <= 6 and 0 <= x1 <= 6 and 0 <= x2 <= 6
  post: _
  """
  return triple_ok(%d, %d, %d, x0, x1, x2)
''' % (name, c0, c1, c2)


# ---- closing a record through a handle that is (or is not) the root of its union-find chain
CLOSE = '''

def close_ok(fx, third_ctor, tx, close_via_alias, unify_via_alias, extra_hop):
  # an open record {a: atom(fx)} reached through a chain of unified references; one handle
  # closes it; afterwards every handle must denote the closed record, and unifying a third
  # term through any handle must give the meet with the *closed* record
  rec_t = ('open', (('a', atom(fx)),))
  closed_t = ('closed', (('a', atom(fx)),))
  root = build(rec_t)
  alias = RA.TypeReference('Any')
  RA.Unify(alias, root)
  if extra_hop:
    far = RA.TypeReference('Any')
    RA.Unify(far, alias)
    alias = far
  (alias if close_via_alias else root).CloseRecord()
  if norm(read(RA.VeryConcreteType(root))) != closed_t:
    return False
  if norm(read(RA.VeryConcreteType(alias))) != closed_t:
    return False
  if third_ctor == 0:
    third = atom(tx)
  elif third_ctor == 1:
    third = ('list', atom(tx))
  elif third_ctor == 2:
    third = ('open', (('a', atom(tx)),))
  elif third_ctor == 3:
    third = ('open', ((0, atom(tx)),))
  else:
    third = ('closed', (('a', atom(tx)),))
  want = meet(closed_t, third)
  want = norm(want) if want is not None else None
  t = build(third)
  RA.Unify(alias if unify_via_alias else root, t)
  got = [read(RA.VeryConcreteType(h)) for h in (root, alias, t)]
  clash = any(g == 'BAD' for g in got)
  if clash != (want is None):
    return False
  if clash:
    return True
  return all(norm(g) == want for g in got)
'''


def close_fn(third_ctor):
  name = 'k_close_record_t%d' % third_ctor
  return name, '''

def %s(fx: int, tx: int, close_via_alias: bool, unify_via_alias: bool, extra_hop: bool) -> bool:
  \"\"\"
  pre: 0 <= fx <= 6 and 0 <= tx <= 6
  post: _
  \"\"\"
  return close_ok(fx, %d, tx, close_via_alias, unify_via_alias, extra_hop)
''' % (name, third_ctor)
