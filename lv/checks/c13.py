"""C13 — compilation is a deterministic, history-free function of the program (process-state
kernels only)."""
import time
from .. import framework as fw, kernels, kern

FUNCTIONS = [
    'compiler/universe.py, compiler/functors.py, compiler/rule_translate.py, compiler/expr_translate.py, compiler/dialects.py, type_inference/research/*.py: whole compilation (LogicaProgram.__init__ + FormattedPredicateSql) under CrossHair, sources instrumented at import so that every ordered consumption of a set consults a symbolic order (PerformIterationClosure, SortUnnestings, RecursiveAnalysis, UpdateStructure, CallFunctor, ...)',
    'parser_py/parse.py: TOO_MUCH, EnactIncantations, ParseGenericCall (real code under CrossHair in both parser modes; counterexamples replayed end to end through ParseFile + LogicaProgram)',
    'compiler/expr_translate.py: QL.__init__, InstallBulkFunctionsOfStandardSQL, CleanOperatorsAndFunctions, class-level tables BUILT_IN_FUNCTIONS / BUILT_IN_INFIX_OPERATORS / BULK_FUNCTIONS (real code under CrossHair over all histories of two earlier dialects)',
]

HEAD = r'''
import copy
from parser_py import parse
from compiler import expr_translate, dialects

DIALECTS = [dialects.BigQueryDialect, dialects.SqLiteDialect, dialects.PostgreSQL, dialects.Trino,
            dialects.Presto, dialects.ClickHouseDialect, dialects.DuckDB, dialects.Databricks]
expr_translate.QL.InstallBulkFunctionsOfStandardSQL()
SNAP_INFIX = copy.deepcopy(expr_translate.QL.BUILT_IN_INFIX_OPERATORS)
SNAP_FUNCS = copy.deepcopy(expr_translate.QL.BUILT_IN_FUNCTIONS)
SNAP_BULK = copy.deepcopy(expr_translate.QL.BULK_FUNCTIONS)


def make(i):
  return expr_translate.QL({}, None, Exception, {}, dialect=DIALECTS[i]())


def clean(d):
  return {k: v for k, v in d.items() if v is not None}


def tables_ok(d0, t):
  make(d0)
  q = make(t)
  dia = DIALECTS[t]()
  infix = copy.deepcopy(SNAP_INFIX)
  infix.update(dia.InfixOperators())
  funcs = copy.deepcopy(SNAP_BULK)
  funcs.update(SNAP_FUNCS)
  funcs.update(dia.BuiltInFunctions())
  return (q.built_in_infix_operators == clean(infix) and q.built_in_functions == clean(funcs)
          and expr_translate.QL.BUILT_IN_INFIX_OPERATORS == SNAP_INFIX
          and expr_translate.QL.BUILT_IN_FUNCTIONS == SNAP_FUNCS
          and expr_translate.QL.BULK_FUNCTIONS == SNAP_BULK)


def k_ql_tables_t0(d0: int) -> bool:
  """
  pre: 0 <= d0 < 8
  post: _
  """
  return tables_ok(d0, 0)


def k_ql_tables_t1(d0: int) -> bool:
  """
  pre: 0 <= d0 < 8
  post: _
  """
  return tables_ok(d0, 1)


def k_ql_tables_t2(d0: int) -> bool:
  """
  pre: 0 <= d0 < 8
  post: _
  """
  return tables_ok(d0, 2)


def k_ql_tables_t3(d0: int) -> bool:
  """
  pre: 0 <= d0 < 8
  post: _
  """
  return tables_ok(d0, 3)


def k_ql_tables_t4(d0: int) -> bool:
  """
  pre: 0 <= d0 < 8
  post: _
  """
  return tables_ok(d0, 4)


def k_ql_tables_t5(d0: int) -> bool:
  """
  pre: 0 <= d0 < 8
  post: _
  """
  return tables_ok(d0, 5)


def k_ql_tables_t6(d0: int) -> bool:
  """
  pre: 0 <= d0 < 8
  post: _
  """
  return tables_ok(d0, 6)


def k_ql_tables_t7(d0: int) -> bool:
  """
  pre: 0 <= d0 < 8
  post: _
  """
  return tables_ok(d0, 7)


def generic_call_in_mode(mode, s):
  saved = parse.TOO_MUCH
  parse.TOO_MUCH = mode
  try:
    return parse.ParseGenericCall(s, '(', ')')
  except Exception as e:
    return 'exception ' + type(e).__name__
  finally:
    parse.TOO_MUCH = saved


def k_call_parse_mode_free(op: str) -> bool:
  """
  pre: len(op) == 1
  post: _
  """
  s = '3' + op + 'F(2)'
  return generic_call_in_mode('too much', s) == generic_call_in_mode('fun', s)
'''

INCANTATION = 'Signa inter verba conjugo, symbolum infixus evoco!'


def is_sticky_mode(op):
  """end-to-end: does compiling a program that enables experimental syntax change what the
  same program text compiles to afterwards?  -> (differs, detail)"""
  from ..real import parse, universe
  text = '@Engine("sqlite");\nF(x) = x + 1;\nT(y) :- y == 3%sF(2);\n' % op

  def comp():
    try:
      rules = parse.ParseFile(text)['rule']
      return universe.LogicaProgram(rules).FormattedPredicateSql('T')
    except Exception as e:  # noqa: BLE001
      return 'exception %s: %s' % (type(e).__name__, str(e)[:120])
  saved = parse.TOO_MUCH
  parse.TOO_MUCH = 'too much'
  try:
    before = comp()
    try:
      parse.ParseFile('# %s\n@Engine("sqlite");\nQ(1);\n' % INCANTATION)
    except Exception:  # noqa: BLE001
      pass
    after = comp()
  finally:
    parse.TOO_MUCH = saved
  return before != after, {'program': text, 'sql_before': before, 'sql_after_incantation_program': after}


def _fresh_digests(progs):
  """{name: digest of what a fresh interpreter compiles}; one process per program"""
  import json, os, subprocess, sys
  from .. import variants
  from . import c13_kernel as CK
  repo = os.environ.get('VERIF_REPO', '/repo')
  src = kern.PRELUDE % repo + variants.prelude(False) + CK.COMMON + CK.FRESH_SCRIPT
  out = {}
  for name, text, pred in progs:
    r = subprocess.run([sys.executable, '-c', src], input=json.dumps([[name, text, pred]]), stdout=subprocess.PIPE,
                       stderr=subprocess.STDOUT, text=True, env=dict(os.environ, PYTHONHASHSEED='0'))
    for line in r.stdout.splitlines():
      if line.startswith('DIGESTS '):
        out.update(json.loads(line[8:]))
    if name not in out:
      raise RuntimeError('fresh compile of %s failed: %s' % (name, r.stdout[-600:]))
  return out


def order_source(nmasks):
  from .. import variants, ordset
  from . import c13_kernel as CK
  src = ordset.PRELUDE + variants.prelude(True) + CK.COMMON
  names = []
  for name, text, pred in CK.PROGRAMS:
    n, sfn = CK.order_kernel(name, text, pred, nmasks)
    names.append(n)
    src += sfn
  return src, names


def history_source():
  from .. import variants
  from . import c13_kernel as CK
  fresh = _fresh_digests(CK.DIALECT_PROGRAMS)
  src = variants.prelude(False) + CK.COMMON + CK.HISTORY_HEAD
  # fill the library memo without compiling anything (no history is created at import)
  src += '\nfrom compiler import dialects as _d\nfor _e in ["sqlite", "bigquery", "psql", "duckdb", "trino", "presto", "clickhouse", "databricks"]:\n  universe.parse.ParseFile(_d.Get(_e).LibraryProgram())\n'
  names = []
  for name, text, pred in CK.DIALECT_PROGRAMS:
    n, sfn = CK.history_kernel(name, text, pred, fresh[name])
    names.append(n)
    src += sfn
  reuse = ['unnest', 'mutual_two_annotations', 'functors', 'ground_plan', 'combines', 'min_path']
  n, sfn = CK.reuse_kernel(reuse)
  names.append(n)
  src += sfn
  return src, names, fresh


def replay_order(name, args):
  """1. the same compilation, same mask, in a fresh interpreter (real code, a legal set order);
     2. a search for two real PYTHONHASHSEED values that give different SQL (uninstrumented)."""
  import os, re, subprocess, sys, tempfile, shutil
  from .. import variants, ordset
  from . import c13_kernel as CK
  m = re.match(r'k_order_(.*)_(\d+)$', name)
  prog = [p for p in CK.PROGRAMS if p[0] == m.group(1)][0]
  mm = re.search(r'-?\d+', args or '')
  mask = int(m.group(2)) + (int(mm.group(0)) if mm else 0)
  repo = os.environ.get('VERIF_REPO', '/repo')
  d = tempfile.mkdtemp(prefix='logica_verif_c13r_')
  try:
    p = os.path.join(d, 'replay.py')
    with open(p, 'w') as f:
      f.write(kern.PRELUDE % repo + ordset.PRELUDE + variants.prelude(False) + CK.COMMON + r"""
import sys
rules = rules_of(%r)
ORACLE.reset(0)
a = observe(copy.deepcopy(rules), %r)
ORACLE.reset(%d)
b = observe(copy.deepcopy(rules), %r)
print('EVENTS', ORACLE.events, ORACLE.permuted)
if a != b:
  import difflib
  print('\n'.join(list(difflib.unified_diff(str(a[1]).splitlines(), str(b[1]).splitlines(), lineterm='', n=1))[:40]))
sys.exit(7 if a != b else 0)
""" % (prog[1], prog[2], mask, prog[2]))
    r = subprocess.run([sys.executable, p], stdout=subprocess.PIPE, stderr=subprocess.STDOUT, text=True)
    reproduced = r.returncode == 7
    seeds = {}
    if reproduced:
      plain = kern.PRELUDE % repo + variants.prelude(False) + CK.COMMON + CK.FRESH_SCRIPT
      import json
      for hs in range(0, 24):
        rr = subprocess.run([sys.executable, '-c', plain], input=json.dumps([list(prog)]), stdout=subprocess.PIPE,
                            stderr=subprocess.STDOUT, text=True, env=dict(os.environ, PYTHONHASHSEED=str(hs)))
        for line in rr.stdout.splitlines():
          if line.startswith('DIGESTS '):
            seeds.setdefault(json.loads(line[8:])[prog[0]], []).append(hs)
    return (reproduced, 'the emitted SQL depends on the iteration order of a set (mask %d)%s' % (
        mask, '; PYTHONHASHSEED values giving different SQL: %s' % sorted(seeds.values())[:2] if len(seeds) > 1 else
        '; no two hash seeds in 0..23 differ, the order is one a set may legally take'),
            {'program': prog[1], 'predicate': prog[2], 'mask': mask, 'diff': r.stdout[-1500:],
             'hash_seed_classes': sorted(seeds.values())})
  finally:
    shutil.rmtree(d, ignore_errors=True)


def replay_history(name, args):
  import os, re, subprocess, sys, json
  from .. import variants
  from . import c13_kernel as CK
  repo = os.environ.get('VERIF_REPO', '/repo')
  if name == 'k_reuse_rules':
    reuse = ['unnest', 'mutual_two_annotations', 'functors', 'ground_plan', 'combines', 'min_path']
    progs = [p for p in CK.PROGRAMS if p[0] in reuse]
    mm = re.search(r'-?\d+', args or '')
    prog = progs[min(int(mm.group(0)) if mm else 0, len(progs) - 1)]
    script = kern.PRELUDE % repo + variants.prelude(False) + CK.COMMON + r"""
import sys
rules = rules_of(%r)
snap = copy.deepcopy(rules)
a = observe(rules, %r)
b = observe(rules, %r)
print('same sql:', a == b, 'rules untouched:', rules == snap)
sys.exit(0 if a == b and rules == snap else 7)
""" % (prog[1], prog[2], prog[2])
    r = subprocess.run([sys.executable, '-c', script], stdout=subprocess.PIPE, stderr=subprocess.STDOUT, text=True)
    return (r.returncode == 7, 'compiling the same parsed rules object twice differs / mutates the rules', {'program': prog[1], 'output': r.stdout[-500:]})
  target = [p for p in CK.DIALECT_PROGRAMS if 'k_history_' + p[0] == name][0]
  nums = re.findall(r'-?\d+', args or '')
  j = min(int(nums[0]) if nums else 0, len(CK.DIALECT_PROGRAMS) - 1)
  twice = 'True' in (args or '')
  hist = [CK.DIALECT_PROGRAMS[j]] + ([CK.DIALECT_PROGRAMS[(j + 3) % len(CK.DIALECT_PROGRAMS)]] if twice else [])
  script = kern.PRELUDE % repo + variants.prelude(False) + CK.COMMON + r"""
import sys, hashlib
for text, pred in %r:
  observe(rules_of(text), pred)
got = observe(rules_of(%r), %r)
print(got[1][:1500] if got[0] == 'sql' else got)
print('DIGEST', hashlib.sha1(repr(got).encode('utf-8')).hexdigest())
""" % ([(h[1], h[2]) for h in hist], target[1], target[2])
  r = subprocess.run([sys.executable, '-c', script], stdout=subprocess.PIPE, stderr=subprocess.STDOUT, text=True)
  fresh = _fresh_digests([target])[target[0]]
  got = [l.split()[1] for l in r.stdout.splitlines() if l.startswith('DIGEST ')]
  return (bool(got) and got[0] != fresh,
          'the SQL of a program depends on which programs were compiled earlier in the process (after %s)' % [h[0] for h in hist],
          {'target': target[1], 'history': [h[1] for h in hist], 'sql_after_history': r.stdout[-1500:], 'fresh_digest': fresh})


def run():
  t0 = time.time()
  out = fw.Outcome('C13', 'other', t0)
  thorough = fw.tier() == 'thorough'
  from . import c13_kernel as CK
  # (a) parser mode: CrossHair proposes fragments whose parse depends on the module-level switch;
  # a violation is claimed only if a program containing the incantation really changes the
  # SQL of a later compilation of the same text
  r2 = kern.check(HEAD, ['k_call_parse_mode_free'], timeout=900)
  v = r2['k_call_parse_mode_free'].get('verdict')
  cov = out.coverage.setdefault('kernels', {})
  cov['parser mode'] = {'crosshair_verdict': v, 'seconds': r2['k_call_parse_mode_free'].get('seconds')}
  if v == 'counterexample':
    args = kern.counterexample_args(r2['k_call_parse_mode_free'].get('output', ''))
    try:
      op = eval(args.split('=')[-1]) if args else '*'
    except Exception:  # noqa: BLE001
      op = '*'
    tried = []
    hit = None
    for cand in [op, '*', '/', '%', '^']:
      if cand in tried:
        continue
      tried.append(cand)
      differs, detail = is_sticky_mode(cand)
      if differs:
        hit = (cand, detail)
        break
    cov['parser mode']['candidates_replayed'] = tried
    if hit:
      out.violation('the same program text compiles differently after a program with the experimental-syntax incantation was parsed in the process',
                    dict(property='C13', kernel='k_call_parse_mode_free', op=hit[0], **hit[1]))
  elif v != 'confirmed':
    out.hard_inconclusive.append('parser mode kernel: CrossHair %s' % v)
  # (b) hash seed = set iteration order, over whole compilations
  nmasks = 256 if thorough else 16
  osrc, onames = order_source(nmasks)
  ores = kernels.run_kernels(out, 'set iteration order (hash seed)', osrc, onames, 7200 if thorough else 900, replay_order)
  # (c) history of earlier compilations, reuse of a parsed rules object
  hsrc, hnames, fresh = history_source()
  hres = kernels.run_kernels(out, 'history of earlier compilations', hsrc, hnames, 1800, replay_history)
  ok_o = [n for n in onames if ores[n].get('verdict') == 'confirmed' and ores[n].get('twin') == 'reachable']
  ok_h = [n for n in hnames if hres[n].get('verdict') == 'confirmed' and hres[n].get('twin') == 'reachable']
  nparser = 1 + len(cov['parser mode'].get('candidates_replayed', []))
  out.coverage.update({
      'evaluations': nparser + len(onames) * nmasks + (len(hnames) - 1) * 16 + 6,
      'distinct_nontrivial': (1 if v in ('confirmed', 'counterexample') else 0) + len(ok_o) * (nmasks - 1) + len([n for n in ok_h if n != 'k_reuse_rules']) * 16 + (6 if 'k_reuse_rules' in ok_h else 0),
      'rule': ('one case = (program, set-order mask) | (target dialect program, history of one or two earlier compilations) | '
               '(program compiled twice from one rules object) | the parser-mode kernel; counted when its kernel is '
               '"Confirmed over all paths" with a violated reachability twin; mask 0 is the baseline and not counted'),
      'samples': [{'kernel': onames[0], 'program': CK.PROGRAMS[0][1], 'masks': nmasks, 'verdict': ores[onames[0]].get('verdict')},
                  {'kernel': hnames[0], 'target': CK.DIALECT_PROGRAMS[0][1], 'fresh_process_digest': fresh.get(CK.DIALECT_PROGRAMS[0][0]),
                   'verdict': hres[hnames[0]].get('verdict')},
                  {'kernel': 'k_call_parse_mode_free', 'verdict': v}],
      'functions_encoded': FUNCTIONS,
      'bounds': {'set_order_masks': nmasks, 'programs': [p[0] for p in CK.PROGRAMS],
                 'history': 'one or two earlier compilations drawn from 8 dialect programs, then the target (8 targets)',
                 'reuse': 'each of 6 programs compiled twice from the same parsed rules object'},
      'explanation': ('(a) CrossHair searches every one-character operator op for which parse.ParseGenericCall("3" op "F(2)") depends on the '
                      'module-level switch parse.TOO_MUCH; candidates are replayed end to end.  (b) The hash seed can reach the SQL only through '
                      'the iteration order of sets: every ordered consumption of an iterable in the compiler sources is rewritten at import (AST) '
                      'to consult an oracle; CrossHair runs the whole compilation of each catalogue program for every mask of a pair-separating '
                      'family of orders and the SQL + export map must equal the canonical-order result.  (c) Whole compilations in sequence: any '
                      'one or two of eight dialect programs, then a target whose result must have the digest a fresh interpreter produced; the same '
                      'rules object compiled twice.  All whole-compilation kernels use the cuts of lv/variants.py.'),
      'design_ref': 'DESIGN.md §3 C13',
  })
  out.assumptions = [
      'hash-seed channel = set iteration order (no hash(), id(), random in the compiler; time only in the stop-file name, which is normalised)',
      'set orders explored: the mask family of lv/ordset.py (canonical order permuted by i -> i XOR mask, one mask per compilation, %d masks); this separates every pair of elements of every set of up to %d elements but is not every combination of orders across the 20-900 iteration events of a compilation' % (nmasks, nmasks),
      'history: sequences of at most two earlier compilations of fixed dialect programs; parsing happens at harness import (the parser-mode channel is decided separately by kernel (a)); imports and flags are not varied',
      'cuts: dialect-library parse memoised; the CSV function table is replaced by two entries in the set-order kernels (not in the history kernels)',
  ]
  return out.finish()


def replay_tables(name, args):
  import os, subprocess, sys, tempfile, shutil
  d = tempfile.mkdtemp(prefix='logica_verif_c13r_')
  try:
    p = os.path.join(d, 'replay.py')
    with open(p, 'w') as f:
      f.write(kern.PRELUDE % os.environ.get('VERIF_REPO', '/repo') + HEAD +
              '\nimport sys\nsys.exit(0 if %s(%s) else 7)\n' % (name, args))
    r = subprocess.run([sys.executable, p], stdout=subprocess.PIPE, stderr=subprocess.STDOUT, text=True)
    return (r.returncode != 0, 'tables of a QL instance depend on which dialects were used earlier in the process (exit %d)' % r.returncode,
            {'call': '%s(%s)' % (name, args), 'output': r.stdout[-800:]})
  finally:
    shutil.rmtree(d, ignore_errors=True)


def replay(path):
  print(open(path).read())
  return 0
