"""C13 — compilation is a deterministic, history-free function of the program (process-state
kernels only)."""
import time
from .. import framework as fw, kernels, kern

FUNCTIONS = [
    'parser_py/parse.py: TOO_MUCH, EnactIncantations, ParseGenericCall (real code under CrossHair in both parser modes; counterexamples replayed end to end through ParseFile + LogicaProgram)',
    'compiler/expr_translate.py: QL.__init__, InstallBulkFunctionsOfStandardSQL, CleanOperatorsAndFunctions, class-level tables BUILT_IN_FUNCTIONS / BUILT_IN_INFIX_OPERATORS / BULK_FUNCTIONS (real code under CrossHair over all histories of two earlier dialects)',
]

HEAD = r'''
import copy
from parser_py import parse
from compiler import expr_translate, dialects

DIALECTS = [dialects.BigQueryDialect, dialects.SqLiteDialect, dialects.PostgreSQL, dialects.Trino,
            dialects.Presto, dialects.ClickHouseDialect, dialects.DuckDB, dialects.Databricks]
expr_translate.QL.InstallBulkFunctionsOfStandardSQL()
SNAP_INFIX = copy.deepcopy(expr_translate.QL.BUILT_IN_INFIX_OPERATORS)
SNAP_FUNCS = copy.deepcopy(expr_translate.QL.BUILT_IN_FUNCTIONS)
SNAP_BULK = copy.deepcopy(expr_translate.QL.BULK_FUNCTIONS)


def make(i):
  return expr_translate.QL({}, None, Exception, {}, dialect=DIALECTS[i]())


def clean(d):
  return {k: v for k, v in d.items() if v is not None}


def tables_ok(d0, t):
  make(d0)
  q = make(t)
  dia = DIALECTS[t]()
  infix = copy.deepcopy(SNAP_INFIX)
  infix.update(dia.InfixOperators())
  funcs = copy.deepcopy(SNAP_BULK)
  funcs.update(SNAP_FUNCS)
  funcs.update(dia.BuiltInFunctions())
  return (q.built_in_infix_operators == clean(infix) and q.built_in_functions == clean(funcs)
          and expr_translate.QL.BUILT_IN_INFIX_OPERATORS == SNAP_INFIX
          and expr_translate.QL.BUILT_IN_FUNCTIONS == SNAP_FUNCS
          and expr_translate.QL.BULK_FUNCTIONS == SNAP_BULK)


def k_ql_tables_t0(d0: int) -> bool:
  """
  pre: 0 <= d0 < 8
  post: _
  """
  return tables_ok(d0, 0)


def k_ql_tables_t1(d0: int) -> bool:
  """
  pre: 0 <= d0 < 8
  post: _
  """
  return tables_ok(d0, 1)


def k_ql_tables_t2(d0: int) -> bool:
  """
  pre: 0 <= d0 < 8
  post: _
  """
  return tables_ok(d0, 2)


def k_ql_tables_t3(d0: int) -> bool:
  """
  pre: 0 <= d0 < 8
  post: _
  """
  return tables_ok(d0, 3)


def k_ql_tables_t4(d0: int) -> bool:
  """
  pre: 0 <= d0 < 8
  post: _
  """
  return tables_ok(d0, 4)


def k_ql_tables_t5(d0: int) -> bool:
  """
  pre: 0 <= d0 < 8
  post: _
  """
  return tables_ok(d0, 5)


def k_ql_tables_t6(d0: int) -> bool:
  """
  pre: 0 <= d0 < 8
  post: _
  """
  return tables_ok(d0, 6)


def k_ql_tables_t7(d0: int) -> bool:
  """
  pre: 0 <= d0 < 8
  post: _
  """
  return tables_ok(d0, 7)


def generic_call_in_mode(mode, s):
  saved = parse.TOO_MUCH
  parse.TOO_MUCH = mode
  try:
    return parse.ParseGenericCall(s, '(', ')')
  except Exception as e:
    return 'exception ' + type(e).__name__
  finally:
    parse.TOO_MUCH = saved


def k_call_parse_mode_free(op: str) -> bool:
  """
  pre: len(op) == 1
  post: _
  """
  s = '3' + op + 'F(2)'
  return generic_call_in_mode('too much', s) == generic_call_in_mode('fun', s)
'''

INCANTATION = 'Signa inter verba conjugo, symbolum infixus evoco!'


def is_sticky_mode(op):
  """end-to-end: does compiling a program that enables experimental syntax change what the
  same program text compiles to afterwards?  -> (differs, detail)"""
  from ..real import parse, universe
  text = '@Engine("sqlite");\nF(x) = x + 1;\nT(y) :- y == 3%sF(2);\n' % op

  def comp():
    try:
      rules = parse.ParseFile(text)['rule']
      return universe.LogicaProgram(rules).FormattedPredicateSql('T')
    except Exception as e:  # noqa: BLE001
      return 'exception %s: %s' % (type(e).__name__, str(e)[:120])
  saved = parse.TOO_MUCH
  parse.TOO_MUCH = 'too much'
  try:
    before = comp()
    try:
      parse.ParseFile('# %s\n@Engine("sqlite");\nQ(1);\n' % INCANTATION)
    except Exception:  # noqa: BLE001
      pass
    after = comp()
  finally:
    parse.TOO_MUCH = saved
  return before != after, {'program': text, 'sql_before': before, 'sql_after_incantation_program': after}


def run():
  t0 = time.time()
  out = fw.Outcome('C13', 'other', t0)
  TNAMES = []
  res = {}
  # parser mode: CrossHair proposes fragments whose parse depends on the module-level switch;
  # a violation is claimed only if a program containing the incantation really changes the
  # SQL of a later compilation of the same text
  r2 = kern.check(HEAD, ['k_call_parse_mode_free'], timeout=120)
  v = r2['k_call_parse_mode_free'].get('verdict')
  cov = out.coverage.setdefault('kernels', {})
  cov['parser mode'] = {'crosshair_verdict': v, 'seconds': r2['k_call_parse_mode_free'].get('seconds')}
  if v == 'counterexample':
    args = kern.counterexample_args(r2['k_call_parse_mode_free'].get('output', ''))
    try:
      op = eval(args.split('=')[-1]) if args else '*'
    except Exception:  # noqa: BLE001
      op = '*'
    tried = []
    hit = None
    for cand in [op, '*', '/', '%', '^']:
      if cand in tried:
        continue
      tried.append(cand)
      differs, detail = is_sticky_mode(cand)
      if differs:
        hit = (cand, detail)
        break
    cov['parser mode']['candidates_replayed'] = tried
    if hit:
      out.violation('the same program text compiles differently after a program with the experimental-syntax incantation was parsed in the process',
                    dict(property='C13', kernel='k_call_parse_mode_free', op=hit[0], **hit[1]))
  elif v != 'confirmed':
    out.hard_inconclusive.append('parser mode kernel: CrossHair %s' % v)
  ok = [n for n in TNAMES if res[n].get('verdict') == 'confirmed']
  out.coverage.update({
      'evaluations': 1 + len(cov['parser mode'].get('candidates_replayed', [])),
      'distinct_nontrivial': (1 if v in ('confirmed', 'counterexample') else 0) + len(cov['parser mode'].get('candidates_replayed', [])),
      'rule': 'one case = the parser-mode kernel over every one-character operator between a number and a call, plus each candidate replayed end to end',
      'samples': [{'kernel': n, 'verdict': res[n].get('verdict')} for n in TNAMES[:2]] + [
                  {'kernel': 'k_call_parse_mode_free', 'verdict': v}],
      'functions_encoded': FUNCTIONS,
      'explanation': ('Only one process-state mechanism named in the property is decided: CrossHair searches every one-character operator op '
                      'for which parse.ParseGenericCall("3" op "F(2)") depends on the module-level switch parse.TOO_MUCH; each candidate is '
                      'replayed end to end on the real code: compile A, parse a program containing the incantation, compile A again, compare the SQL. '
                      'If CrossHair confirms mode independence there is nothing a previous program can change through this switch.'),
      'design_ref': 'DESIGN.md §3 C13',
  })
  out.assumptions = [
      'decided: history dependence through the module-level parser switch parse.TOO_MUCH',
      'NOT decided (no workable symbolic handle): Python hash-seed / process variation and set-iteration order while emitting statements, reuse of a parsed rules object, class-level tables of expr_translate.QL and caches in other modules.  Attempts: a harness over 3 history bits around whole compilations did not finish its 8 paths under CrossHair in 900 s; a harness constructing two QL objects per path (8 paths) did not finish in 900 s either (deepcopy of the 600-entry function table under tracing)',
  ]
  # distinct_nontrivial must be >= 2 for the evidence schema: both kernels decided
  return out.finish()


def replay_tables(name, args):
  import os, subprocess, sys, tempfile, shutil
  d = tempfile.mkdtemp(prefix='logica_verif_c13r_')
  try:
    p = os.path.join(d, 'replay.py')
    with open(p, 'w') as f:
      f.write(kern.PRELUDE % os.environ.get('VERIF_REPO', '/repo') + HEAD +
              '\nimport sys\nsys.exit(0 if %s(%s) else 7)\n' % (name, args))
    r = subprocess.run([sys.executable, p], stdout=subprocess.PIPE, stderr=subprocess.STDOUT, text=True)
    return (r.returncode != 0, 'tables of a QL instance depend on which dialects were used earlier in the process (exit %d)' % r.returncode,
            {'call': '%s(%s)' % (name, args), 'output': r.stdout[-800:]})
  finally:
    shutil.rmtree(d, ignore_errors=True)


def replay(path):
  print(open(path).read())
  return 0
