"""Harness sources for C13: set-iteration order (hash seed), history and reuse of parsed rules.
All kernels run whole compilations of pre-parsed programs under CrossHair (lv/variants.py)."""

E = '@Engine("sqlite");\n'

# (name, text, predicate) - shapes named in the property: functors, every recursion mode, iteration,
# unnestings, type-checked dialects
PROGRAMS = [
    ('unnest', E + 'P(a, b, c, d) :- T(x), a in [x, 1], b in [x, 2], c in [a, 3], d in [4, x];\n', 'P'),
    ('unnest_injected', E + 'In1(x, a) :- T(x), a in [x, 1];\nP(a, b, c) :- In1(x, a), b in [x, 2], c in [3, x], T(c);\n', 'P'),
    ('mutual_two_annotations', E + '@Recursive(Even, 3);\n@Recursive(Odd, 3);\nEven(0);\nEven(x + 1) :- Odd(x), x < 6;\nOdd(x + 1) :- Even(x), x < 6;\n', 'Even'),
    ('three_cycle', E + '@Recursive(A, 2);\nA(x) :- T(x);\nB(x + 1) :- A(x);\nC(x) :- B(x);\nA(x) :- C(x), x < 5;\n', 'C'),
    ('vertical_cut', E + '@Recursive(Ra, 2);\nRa(x, y) distinct :- E(x, y);\nRa(x, y) distinct :- Rb(x, z), E(z, y);\nRb(x, y) distinct :- Ra(x, y);\nRb(x, y) distinct :- Ra(y, x);\n', 'Rb'),
    ('iterative', E + '@Recursive(A, 22, iterative: true);\nA() = 0;\nB() = A() + 1;\nC() = B() + 1;\nA() = C() + 1;\nTest() Max= A();\n', 'Test'),
    ('deep_tc', E + '@Recursive(TC, 21);\nTC(x, y) distinct :- E(x, y);\nTC(x, y) distinct :- TC(x, z), E(z, y);\nN() += 1 :- TC(x, y);\n', 'N'),
    ('min_path', E + '@Recursive(D, 3);\nD(x) Min= 0 :- S(x);\nD(y) Min= D(x) + w :- W(x, y, w);\nFar(x) :- D(x) > 2;\n', 'Far'),
    ('functors', E + 'A1(x) :- G(x);\nA2(x, y) :- E(x, y);\nB1(x) :- F(x, y);\nB2(x, y) :- F(y, x);\nMid(x, y) :- A1(x), A2(x, y);\nFn(x, y) :- Mid(x, y), A1(y);\nN1 := Fn(A1: B1);\nN2 := Fn(A2: B2);\nN3 := Fn(A1: B1, A2: B2);\nT(x) :- N1(x, y), N2(y, z), N3(z, x);\n', 'T'),
    ('functor_of_recursive', E + '@Recursive(R, 2);\nBase(x, y) :- E(x, y);\nAlt(x, y) :- F(x, y);\nR(x, y) distinct :- Base(x, y);\nR(x, y) distinct :- R(x, z), Base(z, y);\nR2 := R(Base: Alt);\nT(x, y) :- R(x, y), R2(y, x);\n', 'T'),
    ('diamond_sqlite', E + '@Recursive(A, 4, mode: "diamond");\nA() Max= 0;\nB() Max= A() + 1;\nC() Max= A() + B();\nA() Max= C() + B();\nTest() Max= A() + B() + C();\n', 'Test'),
    ('diamond_duckdb', '@Engine("duckdb");\n@Recursive(Ra, 5);\nRa(x) distinct :- T(x);\nRb(x) distinct :- Ra(x);\nRb(x + 1) distinct :- Rc(x), x < 9;\nRc(x) distinct :- Ra(x);\nRc(x + 2) distinct :- Rb(x), x < 9;\nRa(x) distinct :- Rb(x), Rc(x);\nN() += 1 :- Ra(x), Rb(x), Rc(x);\n', 'N'),
    ('ground_plan', E + '@Ground(M);\n@Ground(M2);\nM(x, y) :- E(x, y), x != y;\nM2(x) distinct :- M(x, y);\nAgg(x) += y :- M(x, y), M2(y);\nN(x, s) :- Agg(x) == s, M2(x), ~M(x, x);\n', 'N'),
    ('combines', E + 'P(x, u, v, w) :- G(x), u == Sum{y :- E(x, y)}, v == Max{y :- F(x, y), y > u}, w List= (y + v :- E(y, x));\n', 'P'),
    ('psql_types', '@Engine("psql");\nT({a: 1, b: "x"});\nS({c: [1], d: {e: 2}});\nU({f: {g: "s"}, h: 1});\nP(x, y, z) :- T(x), S(y), U(z);\n', 'P'),
    ('duckdb_records', '@Engine("duckdb");\nT({a: 1, b: "x"}, [1, 2]);\nP(r.a, l, {k: r, m: l}) :- T(r, l);\nQ(x) List= y :- P(x, y, z);\n', 'Q'),
]

# Log / Split / Length come from the shared function table and are overridden by some dialects only
# (added after seeded change C13-r7: a per-dialect merge that leaked into the shared table)
DIALECT_PROGRAMS = [
    ('sqlite', '@Engine("sqlite");\nP(x, y % 3, x in [1, 2], "a" ++ "b", Log(x), Split("a,b", ","), Length("ab")) :- T(x, y), x / 2 > 1;\n', 'P'),
    ('bigquery', '@Engine("bigquery");\nP(x, y % 3, x in [1, 2], "a" ++ "b", Log(x), Split("a,b", ","), Length("ab")) :- T(x, y), x / 2 > 1;\n', 'P'),
    ('psql', '@Engine("psql");\nP(x, y % 3, "a" ++ "b", Log(x), Split("a,b", ","), Length("ab")) :- T(x, y), x / 2 > 1, x in [1, 2];\n', 'P'),
    ('duckdb', '@Engine("duckdb");\nP(x, y % 3, x in [1, 2], "a" ++ "b", Log(x), Split("a,b", ","), Length("ab")) :- T(x, y), x / 2 > 1;\n', 'P'),
    ('trino', '@Engine("trino");\nP(x, y % 3, x in [1, 2], "a" ++ "b", Log(x), Split("a,b", ","), Length("ab")) :- T(x, y), x / 2 > 1;\n', 'P'),
    ('presto', '@Engine("presto");\nP(x, y % 3, x in [1, 2], "a" ++ "b", Log(x), Split("a,b", ","), Length("ab")) :- T(x, y), x / 2 > 1;\n', 'P'),
    ('clickhouse', '@Engine("clickhouse");\nP(x, y % 3, "a" ++ "b", Log(x), Split("a,b", ","), Length("ab")) :- T(x, y), x / 2 > 1, x in [1, 2];\n', 'P'),
    ('databricks', '@Engine("databricks");\nP(x, y % 3, "a" ++ "b", Log(x), Split("a,b", ","), Length("ab")) :- T(x, y), x / 2 > 1, x in [1, 2];\n', 'P'),
]

COMMON = r'''
import re as _re


def norm_sql(s):
  # the only permitted variation: the time-stamped name of a stop-signal file
  return _re.sub(r'\d{9,}', 'TS', s)


def observe(rules, pred):
  """what C13 compares: the formatted SQL and the export map, or the diagnostic"""
  if isinstance(rules, tuple):
    return ('diagnostic', 'ParsingException')
  try:
    p = universe.LogicaProgram(rules)
    sql = p.FormattedPredicateSql(pred)
    ex = p.execution
    return ('sql', norm_sql(sql), [(k, norm_sql(v)) for k, v in ex.table_to_export_map.items()])
  except DIAGNOSTICS as e:
    return ('diagnostic', type(e).__name__)
'''


def order_kernel(name, text, pred, nmasks, lo=0):
  """SQL under every mask of the family == SQL under the canonical order"""
  return 'k_order_%s_%d' % (name, lo), '''
RULES_%(n)s = rules_of(%(text)r)
ORACLE.reset(0)
warm([RULES_%(n)s], [%(pred)r])
ORACLE.reset(0)
BASE_%(n)s = observe(copy.deepcopy(RULES_%(n)s), %(pred)r)
EVENTS_%(n)s = (ORACLE.events, ORACLE.max_size)


def k_order_%(n)s_%(lo)d(m: int) -> bool:
  """
  pre: 0 <= m < %(nm)d
  post: _
  """
  mask = %(lo)d + concretise(m, %(nm)d)
  with untraced():
    ORACLE.reset(mask)
    got = observe(RULES_%(n)s, %(pred)r)
    ORACLE.reset(0)
    return got == BASE_%(n)s
''' % dict(n=name, text=text, pred=pred, nm=nmasks, lo=lo)


def history_kernel(name, text, pred, fresh_digest):
  """compile one or two other programs (any of the eight dialect programs) first, then this one:
  the SQL must be the SQL a fresh process produces (digest computed by the driver)"""
  return 'k_history_%s' % name, '''
RULES_H_%(n)s = rules_of(%(text)r)


def k_history_%(n)s(d0: int, twice: bool) -> bool:
  """
  pre: 0 <= d0 < %(nd)d
  post: _
  """
  j = concretise(d0, %(nd)d)
  two = True if twice else False
  with untraced():
    observe(DIALECT_RULES[j], DIALECT_PREDS[j])
    if two:
      observe(DIALECT_RULES[(j + 3) %% %(nd)d], DIALECT_PREDS[(j + 3) %% %(nd)d])
    got = observe(RULES_H_%(n)s, %(pred)r)
    return digest(got) == %(fresh)r
''' % dict(n=name, text=text, pred=pred, nd=len(DIALECT_PROGRAMS), fresh=fresh_digest)


def reuse_kernel(names):
  """compiling the same parsed rules object again gives the same SQL, and the rules object is
  left as the parser produced it"""
  return 'k_reuse_rules', '''
REUSE_RULES = [rules_of(t) for t in %(texts)r]
REUSE_PREDS = %(preds)r
REUSE_SNAP = copy.deepcopy(REUSE_RULES)


def k_reuse_rules(i: int) -> bool:
  """
  pre: 0 <= i < %(n)d
  post: _
  """
  j = concretise(i, %(n)d)
  with untraced():
    a = observe(REUSE_RULES[j], REUSE_PREDS[j])
    b = observe(REUSE_RULES[j], REUSE_PREDS[j])
    return a == b and REUSE_RULES[j] == REUSE_SNAP[j]
''' % dict(texts=[t for n, t, p in PROGRAMS if n in names], preds=[p for n, t, p in PROGRAMS if n in names],
           n=len(names))


HISTORY_HEAD = '''
import hashlib


def digest(obs):
  return hashlib.sha1(repr(obs).encode('utf-8')).hexdigest()


DIALECT_RULES = [rules_of(t) for t in %(texts)r]
DIALECT_PREDS = %(preds)r
''' % dict(texts=[t for n, t, p in DIALECT_PROGRAMS], preds=[p for n, t, p in DIALECT_PROGRAMS])


FRESH_SCRIPT = r'''
import hashlib, json, sys
progs = json.loads(sys.stdin.read())
out = {}
for name, text, pred in progs:
  rules = rules_of(text)
  out[name] = hashlib.sha1(repr(observe(rules, pred)).encode('utf-8')).hexdigest()
print('DIGESTS ' + json.dumps(out))
'''
