"""C18 — order_by and limit select the first K rows in the given order."""
from . import tvrun

FUNCTIONS = [
    'parser_py/parse.py: GrabDenotation, AnnotationsFromDenotations',
    'compiler/universe.py: Annotations.OrderBy, LimitOf, OrderByClause, LimitClause, OkInjection; LogicaProgram.PredicateSql (single-rule and UNION ALL paths), RunInjections, TranslateWithedTable',
    'emitted SQL: ORDER BY ... LIMIT n evaluated symbolically (rank of each present row among present rows)',
]
ASSUMPTIONS = [
    'program shape from the seeded catalogue family "orderby": ordered predicate defined by one atom / a join / two rules (UNION ALL) / distinct / aggregation / expressions; annotation forms @OrderBy(P, "c desc", ...), @OrderBy(P, "c", "DESC", ...) and denotations order_by(...) limit(...); one or two keys, asc/desc; limit in {none,0,1,2,3}; consumers: projection, aggregation, join, self-join, two readers joined; with and without @NoInject/@With/@NoWith',
    'sort keys of present rows are non-null and pairwise distinct (the property requires a total order); the limit literal is concrete',
    'the ordered predicate is compared position-wise with the first K rows of the reference multiset in the requested order; consumers are compared as multisets with the reference in which the ordered predicate contributes exactly those rows',
    'database: <=K rows per table (K=3 for single-atom bodies, else 2); trusted: lv/sqlsem.py, lv/refsem.py, lv/vals.py order_limit_rel (validated against SQLite on seeded databases), z3',
]


def run():
  return tvrun.run_tv('C18', {'orderby': (80, 6000, None)}, FUNCTIONS, ASSUMPTIONS, 'DESIGN.md §3 C18')


def replay(path):
  return tvrun.replay_tv(path)
