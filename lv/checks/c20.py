"""C20 — built-in functions and aggregates on SQLite compute their documented meaning."""
import json
from . import tvrun, c20_kernel as K
from .. import framework as fw, kernels, kern

FUNCTIONS = [
    'common/sqlite3_logica.py: ArgMin.step/finalize, ArgMax.step/finalize, ArrayConcatAgg, ArrayConcat, SortList, InList, Join, DistinctListAgg (real code under CrossHair)',
    'compiler/dialects.py: SqLiteDialect.BuiltInFunctions / InfixOperators templates (Range, Size, Element, in, Least, Greatest) and compiler/expr_translate.py arithmetic/comparison, as emitted SQL evaluated by lv/sqlsem.py (recursive CTE, JSON_ARRAY_LENGTH, JSON_EXTRACT, IN_LIST, scalar MIN/MAX)',
    'compiler/dialect_libraries/sqlite_library.py: ArgMin, ArgMax, ArgMinK, ArgMaxK, Array (their SqlExpr templates are the UDF calls exercised by the kernels)',
]
ASSUMPTIONS = [
    'kernels (CrossHair, claimed on "Confirmed over all paths"): ArgMin/ArgMax k-best with n=3,4 unbounded symbolic ints, pairwise distinct (ties excepted), k symbolic in 1..n+1, all n! arrival orders inside one harness; Array (limit null) n=4; limit<=0 raises; ArrayConcatAgg over 3 lists in all 6 orders with an interleaved NULL; ArrayConcat incl. NULL arguments; SortList, InList (4 symbolic ints); Join over symbolic strings of length <=2; DistinctListAgg content for all 24 orders',
    'stub: the json module inside sqlite3_logica is replaced by identity on Python lists (the C boundary would realise symbolic values); print is silenced',
    'Set order: CrossHair models sets in insertion order, so its counterexample for "Set does not depend on arrival order" is a candidate only; lv/z3k/pyset.py (z3 model of CPython small-int set iteration, validated against the interpreter each run) produces the inputs, which are replayed through real SQLite',
    'family "builtins" (z3 over D(K), K=2): Range (incl. <=0 and as Element/Size/in argument), Size, Element with symbolic and out-of-range index, in as boolean, Least/Greatest, arithmetic incl. unary minus, the six comparisons, against the reference denotation; Range unrolled to 3',
    'non-interference: for 12 list texts (all orders of [1,2,3] and of ["p","q","r"]) and every ordered pair (f, g) of SortList, Join, ArrayConcat (with itself / with an item), InList, g answers the same before and after f saw the same text (300 paths; the choice is branched on, the calls run natively with the real json module because CrossHair neutralises lru_cache in traced code); counterexamples replayed through real SQLite on one connection',
    'outside: ++, Split, ToString/ToInt64, Sort through SQL, Avg/Sum on floats (string theory / floats)',
]


def replay_udf(name, args):
  import os, subprocess, sys, tempfile, shutil
  src = K.HEAD
  names = {}
  for cls in ('ArgMin', 'ArgMax'):
    for n in (3, 4):
      nm, s = K.argbest(cls, n)
      names[nm] = s
  nm, s = K.array_null_limit(4)
  names[nm] = s
  body = names.get(name, '') + K.LIMIT_RAISES + K.OTHERS + K.SET_ORDER
  d = tempfile.mkdtemp(prefix='logica_verif_c20r_')
  try:
    p = os.path.join(d, 'replay.py')
    with open(p, 'w') as f:
      f.write(kern.PRELUDE % os.environ.get('VERIF_REPO', '/repo') + src + body +
              '\nimport sys\nsys.exit(0 if %s(%s) else 7)\n' % (name, args))
    r = subprocess.run([sys.executable, p], stdout=subprocess.PIPE, stderr=subprocess.STDOUT, text=True)
    return (r.returncode != 0, 'UDF result differs from its one-line specification (exit %d)' % r.returncode,
            {'call': '%s(%s)' % (name, args), 'output': r.stdout[-800:]})
  finally:
    shutil.rmtree(d, ignore_errors=True)


def replay_seq(name, args):
  """the sequence is replayed through real SQLite on one connection: SELECT g(l); SELECT f(l);
  SELECT g(l) on the same list literal"""
  import re, json, itertools, inspect
  from .. import real
  from common import sqlite3_logica as S
  nums = [int(x) for x in re.findall(r'-?\d+', args or '')]
  p, f, g = (nums + [0, 0, 0])[:3]
  perms = [list(q) for q in itertools.permutations([3, 1, 2])] + [list(q) for q in itertools.permutations(['q', 'p', 'r'])]
  x = perms[p % 12]
  lit = json.dumps(x)
  src = inspect.getsource(S.ExtendConnectionWithLogicaFunctions)
  names = {}
  for py in ('SortList', 'Join', 'ArrayConcat', 'InList'):
    m = re.search(r"create_function\('(\w+)',\s*\d+,\s*%s\b" % py, src)
    names[py] = m.group(1) if m else py

  def q(v):
    return "'%s'" % v if isinstance(v, str) else str(v)
  calls = {0: "%s('%s')" % (names['SortList'], lit), 1: "%s('%s', '-')" % (names['Join'], lit),
           2: "%s('%s', '%s')" % (names['ArrayConcat'], lit, lit), 3: "%s(%s, '%s')" % (names['InList'], q(x[0]), lit),
           4: "%s('%s', '%s')" % (names['ArrayConcat'], lit, json.dumps([x[1]]))}
  con = real.connect()
  try:
    cur = con.cursor()
    first = cur.execute('SELECT ' + calls[g % 5]).fetchall()
    cur.execute('SELECT ' + calls[f % 5]).fetchall()
    again = cur.execute('SELECT ' + calls[g % 5]).fetchall()
  finally:
    con.close()
  return (first != again, 'a UDF answers differently after another UDF saw the same list: %r then %r' % (first, again),
          {'list': lit, 'f': calls[f % 5], 'g': calls[g % 5], 'first': first, 'again': again})


def set_order_part(out):
  """Set (DistinctListAgg) must not depend on arrival order."""
  from ..z3k import pyset
  from .. import real
  res = kern.check(K.HEAD + K.SET_ORDER, ['k_distinct_list_agg_order'], timeout=600, twins=False)
  v = res['k_distinct_list_agg_order'].get('verdict')
  cov = out.coverage.setdefault('kernels', {})
  cov['set order'] = {'crosshair_verdict': v}
  if v == 'confirmed':
    return
  if v != 'counterexample':
    out.hard_inconclusive.append('set order kernel: CrossHair %s' % v)
    return
  n_valid = pyset.validate()
  verdict, pair = pyset.find_order_dependent_pair()
  cov['set order'].update({'pyset_model_predictions_validated': n_valid, 'z3_verdict': verdict, 'pair': pair})
  if verdict != 'sat':
    # CrossHair's candidate cannot be realised on CPython within the bound
    out.hard_inconclusive.append('set order: candidate from CrossHair, z3 set model says %s' % verdict)
    return
  a, b = pair
  rows = []
  for order in ([a, b], [b, a]):
    text = '@Engine("sqlite");\n' + ''.join('T(%d);\n' % x for x in order) + 'S() Set= x :- T(x);\n'
    c = real.compile_pred(text, 'S')
    con = real.connect()
    try:
      hdr, rr = real.run_statements(con, c.statements())
    finally:
      con.close()
    rows.append(rr)
  if rows[0] != rows[1]:
    out.violation('Set= over the same rows in two arrival orders gives %r vs %r' % (rows[0], rows[1]),
                  {'property': 'C20', 'kernel': 'k_distinct_list_agg_order', 'pair': [a, b],
                   'rows_order_ab': rows[0], 'rows_order_ba': rows[1],
                   'program': 'T(a); T(b); S() Set= x :- T(x);  vs  T(b); T(a); ...'})
  else:
    out.harness_errors.append('set order pair %r does not reproduce through SQLite' % (pair,))


def kernel_part(out):
  src = K.HEAD
  names = []
  ns = (3, 4)
  for cls in ('ArgMin', 'ArgMax'):
    for n in ns:
      nm, s = K.argbest(cls, n)
      names.append(nm)
      src += s
  nm, s = K.array_null_limit(4)
  names.append(nm)
  src += s
  src += K.LIMIT_RAISES + K.OTHERS
  names += ['k_limit_must_be_positive', 'k_array_concat_agg', 'k_array_concat', 'k_sort_list', 'k_in_list',
            'k_distinct_list_agg_content', 'k_join']
  kernels.run_kernels(out, 'sqlite UDFs', src, names, 1500, replay_udf)
  ssrc, snames = K.seq_source()
  kernels.run_kernels(out, 'sqlite UDFs: calls do not interfere', ssrc, snames, 600, replay_seq)
  set_order_part(out)


def run():
  return tvrun.run_tv('C20', {'builtins': (48, 2400, None)}, FUNCTIONS, ASSUMPTIONS, 'DESIGN.md §3 C20',
                      extra_fn=kernel_part, level='other')


def replay(path):
  return tvrun.replay_tv(path)
