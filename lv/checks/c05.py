"""C05 — type checking: accepts well-typed, rejects clashes (literal kinds on skeletons)."""
import time
from . import c05_kernel as K
from .. import framework as fw, kernels, kern

FUNCTIONS = [
    'type_inference/research/infer.py: TypesInferenceEngine.__init__ (BuildDependencies, BuildComplexities), InferTypes, TypeInferenceForRule.PerformInference, TypeErrorChecker.CheckForError/SearchTypeErrors (real code under CrossHair on the real parsed tree)',
    'type_inference/research/reference_algebra.py: Unify and friends (as called by inference)',
    'type_inference/research/types_of_builtins.py: TypesOfBultins',
]


def source():
  src = K.HEAD
  names = []
  for i in range(len(K.SKELETONS)):
    n, s = K.skeleton_fn(i)
    names.append(n)
    src += s
  src += K.RECORD_FIELDS
  names.append('k_types_closed_record_fields')
  return src, names


def replay_k(name, args):
  import os, subprocess, sys, tempfile, shutil
  src, names = source()
  d = tempfile.mkdtemp(prefix='logica_verif_c05r_')
  try:
    p = os.path.join(d, 'replay.py')
    with open(p, 'w') as f:
      f.write(kern.PRELUDE % os.environ.get('VERIF_REPO', '/repo') + src +
              '\nimport sys\nsys.exit(0 if %s(%s) else 7)\n' % (name, args))
    r = subprocess.run([sys.executable, p], stdout=subprocess.PIPE, stderr=subprocess.STDOUT, text=True)
    return (r.returncode != 0, 'type checker verdict or signature differs from the must-agree classes of the skeleton (exit %d)' % r.returncode,
            {'call': '%s(%s)' % (name, args), 'output': r.stdout[-800:]})
  finally:
    shutil.rmtree(d, ignore_errors=True)


def run():
  t0 = time.time()
  out = fw.Outcome('C05', 'other', t0)
  src, names = source()
  res = kernels.run_kernels(out, 'type inference on skeletons', src, names, 2400, replay_k,
                            extra_args=['--per_path_timeout', '60'])
  confirmed = [n for n in names if res[n].get('verdict') == 'confirmed' and res[n].get('twin') == 'reachable']
  out.coverage.update({
      'evaluations': len(names),
      'distinct_nontrivial': len(confirmed),
      'rule': 'one case = one skeleton program over all assignments of {Num, Str, Bool} to its 3-4 literal occurrences (or of {a, b, c} to two accessed field names); non-trivial = "Confirmed over all paths" and reachability twin violated',
      'samples': [{'skeleton': s[0], 'program': s[1], 'must_agree_classes': s[2], 'required_kind': s[3]} for s in K.SKELETONS[:5]],
      'functions_encoded': FUNCTIONS,
      'explanation': ('Each skeleton is parsed by the real parser; CrossHair makes the kind of every placeholder literal symbolic, runs the real '
                      'TypesInferenceEngine + TypeErrorChecker on the substituted tree and checks: a type error is raised exactly when two '
                      'occurrences that must agree (classes known from the skeleton; + requires Num) have different kinds, and otherwise the '
                      'rendered signature of the predicate is the expected one.  Pairs of skeletons differ only in the order of rules / conjuncts. '
                      'This is solver-driven enumeration of 3^k assignments per skeleton, claimed only on "Confirmed over all paths"; it is not a '
                      'statement about all typed programs.'),
      'exhaustive': True,
      'design_ref': 'DESIGN.md §3 C05',
  })
  out.assumptions = [
      '14 skeletons: unification chains (two conjunct orders), facts + call (two rule orders), a multi-rule predicate calling another (two orders), list literal / in, arithmetic, if-then-else, record construction and field access, predicate-level aggregation read by a consumer, combine, injected functional predicate, field access on a closed record coming from another predicate (two conjunct orders)',
      'the third clause of the property (run-time values inhabit the inferred column types) is not decided',
      'outside: programs beyond the skeletons, open/closed record subtleties (C16 decides the algebra), Time type',
  ]
  return out.finish()


def replay(path):
  print(open(path).read())
  return 0
