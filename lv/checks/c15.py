"""C15 — layout, comments and string contents never change what is parsed (scanner lemmas)."""
import time
from . import c15_kernel as K
from .. import framework as fw, kernels, kern

FUNCTIONS = [
    'parser_py/parse.py: Traverse, RemoveComments, IsWhole, SplitRaw, Split, Strip, StripSpaces (real code under CrossHair over all strings within the bound)',
    'parser_py/parse.py: HeritageAwareString.__getitem__, GetSlice (symbolic slice bounds on a concrete 10-character heritage)',
]
ASSUMPTIONS = [
    'string opacity: literal body of <=2 free characters (any code point) inside "..." / `...` / """...""" / \'...\' placed between a prefix and a suffix drawn from small lists (4x4 quick, 6x6 thorough): Traverse state after the literal, IsWhole and the cut offsets of SplitRaw for the separators , ; :- | == = " in " are those of the same text with body x, shifted by the length difference, and no cut falls inside the literal',
    'comment invisibility: RemoveComments(pre /*c*/ post) == RemoveComments(pre post) and RemoveComments(pre #c\\n post) == RemoveComments(pre \\n post) for |pre|<=1, |c|<=1 (2 thorough), |post|<=1 (2 thorough) whenever the scanner is in code state after pre and the insertion does not split a /* */ """ token; what RemoveComments returns has no comment opener in code state (all strings of length <=3 / 4)',
    'layout: Strip/StripSpaces ignore surrounding blanks and newlines; Strip removes one pair of parentheses exactly when the inside is whole; Split parts are the stripped SplitRaw parts and SplitRaw parts re-join to the input; a trailing semicolon adds no statement (all strings of length <=3 quick / 4 thorough)',
    'spans: for h = HeritageAwareString("abcdefghij")[i:j] with (i,j) in {(0,10),(2,7),(3,3),(5,10)} and every a in 0..12, b in -len..12: the slice h[a:b] / h[a:] satisfies heritage[start:stop] == str(slice); indexing returns the right character',
    'outside: composition of the lemmas into whole-program invariance of ParseFile, strings longer than the bound, the C++ parser, slices with stop < -len',
]


def replay_k(name, args):
  import os, subprocess, sys, tempfile, shutil
  src, names, lex = K.source(fw.tier() == 'thorough')
  d = tempfile.mkdtemp(prefix='logica_verif_c15r_')
  try:
    p = os.path.join(d, 'replay.py')
    with open(p, 'w') as f:
      f.write(kern.PRELUDE % os.environ.get('VERIF_REPO', '/repo') + src +
              '\nimport sys\nsys.exit(0 if %s(%s) else 7)\n' % (name, args))
    r = subprocess.run([sys.executable, p], stdout=subprocess.PIPE, stderr=subprocess.STDOUT, text=True)
    return (r.returncode != 0, 'scanner lemma fails on the real functions (exit %d)' % r.returncode,
            {'call': '%s(%s)' % (name, args), 'output': r.stdout[-800:]})
  finally:
    shutil.rmtree(d, ignore_errors=True)


def run_lemmas(prop, which, functions, assumptions, explanation, extra_fn=None):
  t0 = time.time()
  out = fw.Outcome(prop, 'other', t0)
  thorough = fw.tier() == 'thorough'
  src, names, lex = K.source(thorough)
  names = names if which == 'c15' else lex
  res = kernels.run_kernels(out, 'scanner lemmas', src, names, 5400 if thorough else 2400, replay_k)
  confirmed = [n for n in names if res[n].get('verdict') == 'confirmed' and res[n].get('twin') == 'reachable']
  out.coverage.update({
      'evaluations': len(names),
      'distinct_nontrivial': len(confirmed),
      'rule': 'one case = one lemma (harness function) over all strings / integers within its bound; non-trivial = "Confirmed over all paths" and reachability twin violated',
      'samples': [{'lemma': n, 'verdict': res[n].get('verdict'), 'seconds': res[n].get('seconds')} for n in names[:8]],
      'functions_encoded': functions,
      'explanation': explanation,
      'exhaustive': True,
  })
  if extra_fn:
    extra_fn(out)
  out.assumptions = assumptions
  return out.finish()


def replay_whole(name, args):
  import os, subprocess, sys, tempfile, shutil
  src, names = K.whole_source()
  d = tempfile.mkdtemp(prefix='logica_verif_c15w_')
  try:
    p = os.path.join(d, 'replay.py')
    with open(p, 'w') as f:
      f.write(kern.PRELUDE % os.environ.get('VERIF_REPO', '/repo') + src +
              '\nimport sys\nsys.exit(0 if %s(%s) else 7)\n' % (name, args))
    r = subprocess.run([sys.executable, p], stdout=subprocess.PIPE, stderr=subprocess.STDOUT, text=True)
    return (r.returncode != 0, 'layout noise at a blank between tokens changes what ParseFile returns (exit %d)' % r.returncode,
            {'call': '%s(%s)' % (name, args), 'output': r.stdout[-800:], 'kernel': name})
  finally:
    shutil.rmtree(d, ignore_errors=True)


KF_WITNESS = 'P(x) :- T(l), x\nin l;\n'


def whole_part(out):
  """whole-ParseFile invariance under layout noise at every blank of eight programs"""
  src, names = K.whole_source()
  res = kernels.run_kernels(out, 'whole-program layout invariance', src, names, 900, replay_whole)
  ok = [n for n in names if res[n].get('verdict') == 'confirmed' and res[n].get('twin') == 'reachable']
  out.coverage['evaluations'] = out.coverage.get('evaluations', 0) + len(names)
  out.coverage['distinct_nontrivial'] = out.coverage.get('distinct_nontrivial', 0) + len(ok)
  out.coverage['whole_program_layout'] = {'programs': [n for n, t in K.WHOLE_PROGRAMS],
                                          'noise_kinds': 8, 'sample_program': K.WHOLE_PROGRAMS[2][1]}
  # redundant parentheses around expressions of catalogue programs
  cases = K.paren_variants()
  psrc, pnames = K.parens_source(cases)

  def replay_parens(name, args):
    import re
    from ..real import parse
    i = int(name.rsplit('_', 1)[1])
    m = re.search(r'-?\d+', args or '')
    v = int(m.group(0)) if m else 0
    base, vs = cases[i]
    text = vs[min(v, len(vs) - 1)]
    try:
      a = parse.ParseFile(base)['rule']
      parse.TOO_MUCH = 'too much'
      b = parse.ParseFile(text)['rule']
      outcome = 'different rules'

      def plain(n):
        if isinstance(n, dict):
          return dict((k, plain(x)) for k, x in n.items() if k not in ('full_text', 'expression_heritage'))
        if isinstance(n, list):
          return [plain(x) for x in n]
        return str(n) if isinstance(n, str) else n
      differs = plain(a) != plain(b)
    except parse.ParsingException as e:
      differs, outcome = True, 'ParsingException: %s' % str(e)[:120]
    return (differs, 'redundant parentheses around an expression change what is parsed (%s)' % outcome,
            {'original': base, 'with_parentheses': text, 'kernel': name})
  pres = kernels.run_kernels(out, 'redundant parentheses (whole programs)', psrc, pnames, 900, replay_parens)
  okp = [n for n in pnames if pres[n].get('verdict') == 'confirmed' and pres[n].get('twin') == 'reachable']
  out.coverage['evaluations'] += len(pnames)
  out.coverage['distinct_nontrivial'] += len(okp)
  out.coverage['whole_program_layout']['parenthesis_variants'] = sum(len(vs) for b, vs in cases)
  # always-run witness of the known finding
  from ..real import parse
  try:
    parse.ParseFile(KF_WITNESS)
    rejected = False
  except parse.ParsingException as e:
    rejected = 'Could not parse' in str(e)
  try:
    base = parse.ParseFile(KF_WITNESS.replace('\n', ' ', 1))
    base_ok = True
  except parse.ParsingException:
    base_ok = False
  if rejected and base_ok:
    out.violation('a line break next to the keyword operator `in` is a parse error', {
        'kernel': 'kf_keyword_needs_blanks', 'program': KF_WITNESS, 'outcome': 'ParsingException',
        'same_program_with_a_blank_parses': True})


def run():
  return run_lemmas('C15', 'c15', FUNCTIONS, ASSUMPTIONS + [
      'whole-program part: for 8 programs covering the statement forms (facts, disjunction, negation, all three combine syntaxes, aggregating heads, functional predicates, records, lists, if-then-else, implication, annotations, := functors, denotations, string literals full of special characters) and every blank outside string literals, replacing the blank by one of 8 noises (more blanks, line break, tab, block comment, line comment, comments containing brackets / quotes / :-) leaves ParseFile(...)["rule"] unchanged up to the source snippets it carries, and every HeritageAwareString in the tree spans exactly its text; likewise without the final semicolon and with leading / trailing blank lines; and for 10 catalogue programs, wrapping any expression (not the target of `v Op= (...)`) in redundant parentheses in five layouts - (e), ( e ), ((e)), ( (e) ), and across lines - leaves the parsed rules unchanged (193 variants).  Placement and noise kind are the symbolic variables (solver-driven enumeration, parse runs natively on the resulting concrete text)',
      'known finding KF-C15-keyword-needs-blanks is accepted inside the whole-program kernels only as: ParsingException, line break or tab in the noise, position adjacent to one of in / combine / if / then / else / is / not'],
                    'CrossHair executes the real scanner functions symbolically on every string within the stated length '
                    'bounds (free characters range over all code points); each lemma is claimed only when CrossHair reports '
                    '"Confirmed over all paths".  The lemmas are what the splitting parser rests on; lifting them to whole '
                    'programs is not done by the solver.', extra_fn=whole_part)


def replay(path):
  print(open(path).read())
  return 0
