"""C10 — string literals and flag values are data, never SQL."""
import time
from . import c10_kernel as K, c15_kernel as K15
from .. import framework as fw, kernels, kern

FUNCTIONS = [
    'compiler/expr_translate.py: QL.StrLiteral (every dialect branch, extracted from the source AST on each run and encoded in z3), QL.Function, QL.Infix',
    'compiler/universe.py: Annotations.BuildFlagValues, LogicaProgram.UseFlagsAsParameters (real code under CrossHair)',
    'parser_py/parse.py: ParseString, Traverse/SplitRaw string opacity (real code under CrossHair)',
]


def replay_k(name, args):
  import os, subprocess, sys, tempfile, shutil
  src = K.HEAD + K.BODY.replace('%(FLAGLEN)d', '3')
  if name.startswith('k_opacity'):
    src = K15.source(False)[0]
  d = tempfile.mkdtemp(prefix='logica_verif_c10r_')
  try:
    p = os.path.join(d, 'replay.py')
    with open(p, 'w') as f:
      f.write(kern.PRELUDE % os.environ.get('VERIF_REPO', '/repo') + src +
              '\nimport sys\nsys.exit(0 if %s(%s) else 7)\n' % (name, args))
    r = subprocess.run([sys.executable, p], stdout=subprocess.PIPE, stderr=subprocess.STDOUT, text=True)
    return (r.returncode != 0, 'literal / flag lemma fails on the real functions (exit %d)' % r.returncode,
            {'call': '%s(%s)' % (name, args), 'output': r.stdout[-800:]})
  finally:
    shutil.rmtree(d, ignore_errors=True)


def literal_part(out):
  """z3 over the AST-extracted transducers"""
  import sqlite3
  from ..z3k import strlit as S
  from .. import real
  from compiler import expr_translate
  n = 24 if fw.tier() == 'thorough' else 12
  cov = out.coverage.setdefault('string_literals', {})
  try:
    branches, default = S.extract()
  except S.NotExtracted as e:
    # the source no longer has the analysable shape: no claim, no alarm
    cov['not_extracted'] = str(e)
    out.hard_inconclusive.append('QL.StrLiteral AST not extracted: %s' % e)
    return 0, 0
  bad = S.validate_json_assumption()
  if bad:
    out.harness_errors.append('json.dumps is not the identity on code points %r' % bad[:5])
  queries = 0
  proved = 0
  solver_s = 0.0

  class FD(object):
    def __init__(self, name):
      self.name = name

    def Name(self):
      return self.name

  class FQ(object):
    def __init__(self, name):
      self.dialect = FD(name)
  for d in S.DIALECTS:
    tr = branches.get(d, default)
    verdict, witness, secs, maxlen = S.check_dialect(d, tr, n)
    queries += 1
    solver_s += secs
    cov[d] = {'transducer': tr[0] if tr[0] == 'json' else {'prefix': tr[1], 'replace_chain': tr[2], 'suffix': tr[3]},
              'lexer': S.LEXER[d], 'N': n, 'verdict': verdict, 'seconds': round(secs, 2)}
    if verdict == 'unsat':
      proved += 1
      continue
    if verdict != 'sat':
      out.hard_inconclusive.append('string literal %s: z3 %s' % (d, verdict))
      continue
    # replay: real QL.StrLiteral + concrete lexer (+ real SQLite for the SqLite dialect)
    text = expr_translate.QL.StrLiteral(FQ(d), {'the_string': witness})
    decoded = S.concrete_lex(S.LEXER[d], text)
    reproduces = decoded != witness
    extra = {}
    if d == 'SqLite':
      try:
        got = sqlite3.connect(':memory:').execute('SELECT ' + text).fetchone()[0]
        extra['sqlite_returned'] = got
        reproduces = got != witness
      except sqlite3.Error as e:
        extra['sqlite_error'] = str(e)
        reproduces = True
    if reproduces:
      out.violation('%s literal of %r is emitted as %r which %s' % (
          d, witness, text, 'is not one well-formed literal' if decoded is None else 'decodes to %r' % decoded),
          dict(property='C10', dialect=d, string=witness, emitted=text, decoded=decoded, **extra))
    else:
      out.harness_errors.append('string literal %s: z3 witness %r does not reproduce (emitted %r)' % (d, witness, text))
  # the SQLite lexical rule itself is validated on real SQLite with strings made of specials
  import itertools
  checked = 0
  for combo in itertools.product([chr(c) for c in S.SPECIAL[:12]], repeat=2):
    s = ''.join(combo) + "x'"
    text = expr_translate.QL.StrLiteral(FQ('SqLite'), {'the_string': s})
    got = sqlite3.connect(':memory:').execute('SELECT ' + text).fetchone()[0]
    if got != s or S.concrete_lex('sq_plain', text) != s:
      out.harness_errors.append('SQLite lexical rule / real SQLite disagree on %r' % s)
    checked += 1
  cov['sqlite_lexer_validated_on'] = checked
  # positions: the literal emitted inside lists / records / concatenation is StrLiteral's output
  positions = ['T("%s");', 'T(["%s", "x"]);', 'T({a: "%s"});', 'T("%s" ++ "z");',
               '@DefineFlag("f", "%s");\nT(FlagValue("f"));', 'T(x) :- x in ["%s"];']
  probe = "q'%{}$;-- /*"
  lit = expr_translate.QL.StrLiteral(FQ('SqLite'), {'the_string': probe})
  for ptxt in positions:
    c = real.compile_pred('@Engine("sqlite");\n' + ptxt % probe, 'T')
    if lit not in c.formatted:
      out.harness_errors.append('literal position %r: emitted SQL does not contain StrLiteral output' % ptxt)
  cov['positions_checked'] = len(positions)
  out.coverage['solver_s'] = round(solver_s, 2)
  return queries, proved


def validate_literal_eval():
  """the contract assumed by the stub of ast.literal_eval in the single-quoted kernels, checked
  against the interpreter: a backslash/quote/line-break free body denotes itself."""
  import ast
  bad = []
  n = 0
  cps = list(range(0x20, 0x300)) + list(range(0x300, 0x10000, 97)) + list(range(0x10000, 0x110000, 4099))
  for cp in cps:
    if cp in (0x27, 0x5c) or 0xD800 <= cp <= 0xDFFF:
      continue
    body = 'a' + chr(cp) + chr(cp)
    n += 1
    try:
      if ast.literal_eval("'" + body + "'") != body:
        bad.append(cp)
      # the four escapes of the escape kernels next to this code point
      if ast.literal_eval("'" + chr(cp) + "\\'\\\\\\n\\t" + chr(cp) + "'") != chr(cp) + "'\\\n\t" + chr(cp):
        bad.append(cp)
    except Exception:  # noqa: BLE001
      bad.append(cp)
  return bad, n


def run():
  t0 = time.time()
  out = fw.Outcome('C10', 'other', t0)
  bad, nchecked = validate_literal_eval()
  out.coverage['literal_eval_contract_validated_on_code_points'] = nchecked
  if bad:
    out.harness_errors.append('ast.literal_eval is not the identity on backslash-free bodies with code points %r' % bad[:5])
  thorough = fw.tier() == 'thorough'
  queries, proved = literal_part(out)
  src = K.HEAD + K.BODY.replace('%(FLAGLEN)d', '3')
  claimed = [n for n in K.NAMES if n not in ('k_flag_value_is_data', 'k_function_args_verbatim')]
  res = kernels.run_kernels(out, 'literals and flags', src, claimed, 1500, replay_k)
  hunt = kernels.run_kernels(out, 'bug hunting only (not claimed)', src,
                             ['k_flag_value_is_data', 'k_function_args_verbatim'], 60, replay_k, must_confirm=False)
  asrc, anames = K.args_data_source()

  def replay_args(name, args):
    import re, subprocess, sys
    nums = [int(x) for x in re.findall(r'-?\d+', args or '')]
    si, ti = (nums + [0, 0])[:2]
    script = kern.PRELUDE % __import__('os').environ.get('VERIF_REPO', '/repo') + asrc + (
        '\nimport sys\ntry:\n  ok = arg_is_data(%d, %d)\nexcept Exception as e:\n  print(type(e).__name__, e); ok = False\n'
        'print(NASTY[%d], TEMPLATES[%d][0])\nsys.exit(0 if ok else 7)\n' % (si, ti, si, ti))
    r = subprocess.run([sys.executable, '-c', script], stdout=subprocess.PIPE, stderr=subprocess.STDOUT, text=True)
    return (r.returncode == 7, 'a string argument of a built-in does not reach the result unchanged: %s' % r.stdout.strip()[-200:],
            {'call': '%s(%s)' % (name, args), 'output': r.stdout[-800:]})
  ares = kernels.run_kernels(out, 'built-in arguments are data', asrc, anames, 1800, replay_args,
                             extra_args=['--unblock', 'sqlite3.connect', 'sqlite3.connect/handle', 'sqlite3.enable_load_extension',
                                         'sqlite3.load_extension', '--per_path_timeout', '600'])
  src15, names15, _ = K15.source(thorough)
  res15 = kernels.run_kernels(out, 'string opacity (shared with C15)', src15,
                              ['k_opacity_dq', 'k_opacity_triple'], 5400 if thorough else 2400, replay_k)
  confirmed = [n for n in anames if ares[n].get('verdict') == 'confirmed'] + [n for n in claimed if res[n].get('verdict') == 'confirmed'] + \
              [n for n in ('k_opacity_dq', 'k_opacity_triple') if res15[n].get('verdict') == 'confirmed']
  out.coverage.update({
      'evaluations': queries + len(claimed) + 5,
      'distinct_nontrivial': proved + len(confirmed),
      'rule': 'one case = one dialect literal query (z3, unsat) or one lemma (CrossHair, "Confirmed over all paths" with a violated reachability twin)',
      'samples': [{'dialect': d, 'result': out.coverage['string_literals'].get(d)} for d in ('SqLite', 'DuckDB', 'BigQuery')],
      'functions_encoded': FUNCTIONS,
      'explanation': ('QL.StrLiteral is read from the current source AST into per-character transducers; for each of the 8 dialects z3 '
                      'is asked for a string of <=N code points (N=12 quick, 24 thorough; any code point >= 0x20 plus tab and newline) '
                      'whose emitted text is not exactly one literal of that dialect decoding back to the string; unsat = none exists. '
                      'ParseString, flag override/rejection/expansion and string opacity of the scanner are CrossHair lemmas over all '
                      'strings within small length bounds.'),
      'design_ref': 'DESIGN.md §3 C10',
  })
  out.assumptions = [
      'dialect lexical rules (trusted): SQLite/PostgreSQL(standard_conforming_strings)/Presto/Trino: \'...\' with \'\' only; ClickHouse: \'...\' with \'\' and backslash escapes; DuckDB: E\'...\' with \'\' and backslash escapes; BigQuery/Databricks: "..." with backslash escapes; the SQLite rule is validated against real SQLite every run',
      'alphabet: tab, newline and every code point >= 0x20; other control characters (whose escapes differ between engines) are outside the claim; json.dumps is assumed to be the identity outside the tabulated specials (checked on 2000+ code points per run)',
      'flags: values of length <=3, one user flag f and one other flag g; a value spelling ${f} or ${g} is excluded (flags may refer to flags by design)',
      'built-in arguments: 12 strings full of format / template metacharacters ({1}, {0}, {}, %s, %(x)s, {left}, quotes, backslash) x 12 programs passing them through Join, ++, Element, if, Greatest, in, Like, ToString, Size; compiled and run on real SQLite natively (the two indices are the symbolic variables); ${flag} is excluded (documented expansion)',
      'k_flag_value_is_data and k_function_args_verbatim are bug-hunting only: CrossHair does not reach "Confirmed" on str.replace / % formatting of symbolic strings within 60 s; nothing is claimed from them',
      'single-quoted Logica literals: bodies of <=3 (ASCII) / <=2 (Latin-1, BMP) / 1 (astral) code points without backslash, quote or line break, with ast.literal_eval replaced by its contract on that sub-domain (identity; validated against the interpreter on ~1500 code points per run); and with one of the four escapes (backslash followed by quote, backslash, n or t) at any position of a body of <=2 characters (ASCII / code points 0x80-0x2ff), with ast.literal_eval replaced by a pure-Python decoder of exactly these escapes; other escapes are outside the claim',
      'outside: literals longer than N',
  ]
  return out.finish()


def replay(path):
  print(open(path).read())
  return 0
