"""C03 — recursion is the bounded iteration, and the least fixpoint once it converges."""
from . import tvrun

FUNCTIONS = [
    'compiler/functors.py: Functors.RecursiveAnalysis, IsCutOfCover, UnfoldRecursions, UnfoldRecursivePredicate, UnfoldRecursivePredicateFlatFashion, RemoveRulesProvenToBeNil (concretely per catalogue program)',
    'compiler/dialect_libraries/recursion_library.py: GetRecursionFunctor, GetRenamingFunctor, GetFlatRecursionFunctor, GetFlatIterativeRecursionFunctor',
    'compiler/universe.py: LogicaProgram recursion unfolding, PredicateSql nil handling',
    'common/concertina_lib.py: ExecuteLogicaProgram, Concertina.__init__/UnderstandIterations/SortActions/Run/UpdateStateForIterativeAction (real code, executed with a symbolic sql_runner for depth>20)',
    'emitted SQLite SQL (chains of WITH tables, GROUP BY) evaluated symbolically with domain compaction',
]
ASSUMPTIONS = [
    'program shape from the seeded catalogue family "rec": linear/left/non-linear/disjunctive transitive closure, same generation, reachability, mutual recursion cut by one predicate (vertical unfolding; containment clause only), two- and three-predicate cycles that cannot be cut (flat unfolding), Min= shortest path (unit and weighted), multiset and distinct counters; depths 1,2,3 and the default 8; family "recdeep": depths 21,22,24 compiled to the iterative plan (@Iteration, @Ground tables) and executed by the real concertina_lib.ExecuteLogicaProgram with a symbolic sql_runner',
    'database: all graphs with <=K edges (K=3, K=2 for the 3-atom and mutual programs) over arbitrary integer node identities',
    'exact clause: result == T^(depth+1)(empty); containment clause (vertical unfolding): T^(depth+1)(empty) <= result <= T^(cycle*(depth+1))(empty) <= lfp, a counterexample to the upper bound is only reported when the replayed result leaves the concretely computed least fixpoint',
    'trusted: lv/sqlsem.py, lv/refsem.py (iteration from empty relations), z3; outside: diamond mode, stop signals, depth infinity, execution of an iterative plan as a plain script without concertina_lib (logica.py run on SQLite)',
]


def run():
  return tvrun.run_tv('C03', {'rec': (28, 420, None), 'recdeep': (8, 96, None)}, FUNCTIONS, ASSUMPTIONS, 'DESIGN.md §3 C03')


def replay(path):
  return tvrun.replay_tv(path)
