"""C04 — functor application is predicate substitution."""
from . import pairrun

FUNCTIONS = [
    'parser_py/parse.py: ParseFunctorRule (:= into @Make)',
    'compiler/functors.py: Functors.BuildDirectArgsOf, ArgsOf, BuildArgs, UpdateStructure, CallFunctor, CallKey, cached_calls, AllRulesOf, MakeAll, CollectAnnotations',
    'compiler/universe.py: LogicaProgram.RunMakes',
]
ASSUMPTIONS = [
    'each pair = (program with `N := F(A: B, ...)` compiled by the real compiler, the program in which the substitution was done by hand on the catalogue AST by lv/gen_meta.py hand_substitute, without functors.py); shapes: argument reached directly / through 1-2 intermediates / through a shared intermediate depending on two parameters / through aggregation, negation, disjunction; applications: two functors of one predicate, two arguments at once, other binding, equal binding twice (call cache), functor applied to a functor result, the same replacement bound to different parameters, made-predicate names sorting before/after the result they are built on; := lines in both textual orders',
    'additionally F, its arguments and bystanders in the program with := are proved equal to the same predicates in the program without :=',
    'z3 proves equality on all databases with <=2 rows per table',
    'trusted: lv/sqlsem.py, the hand substitution, z3; outside: functors over recursive predicates (C03 exercises those), constants as functor arguments',
]


def run():
  return pairrun.run_pairs('C04', [('lv.gen_meta', 'c04_pairs', 32, 2000)], FUNCTIONS, ASSUMPTIONS,
                           'DESIGN.md §3 C04',
                           rejected_is_violation=lambda r: r.get('rejected_side') == 'a')


def replay(path):
  return pairrun.replay_pair(path)
