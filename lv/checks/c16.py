"""C16 — type unification is a symmetric idempotent meet; clash iff no common type."""
import random
import time
from . import c16_kernel as K
from .. import framework as fw, kernels, kern

FUNCTIONS = [
    'type_inference/research/reference_algebra.py: TypeReference (Target, WeMustGoDeeper, To, CloseRecord), Rank, Unify, UnifyFriendlyRecords, Incompatible, BadType, VeryConcreteType, ConcreteType, OpenRecord, ClosedRecord (real code under CrossHair)',
]


def replay_k(name, args):
  import os, subprocess, sys, tempfile, shutil
  src = K.HEAD + K.TRIPLES + K.CLOSE
  body = ''
  if name.startswith('k_close_record_t'):
    body = K.close_fn(int(name[-1]))[1]
  elif name.startswith('k_unify_triple_'):
    c = name[-3:]
    body = K.triple_fn(int(c[0]), int(c[1]), int(c[2]))[1]
  else:
    parts = name.split('_')      # k unify ca cb fN [deep]
    body = K.pair_fn(parts[2], parts[3], int(parts[4][1:]), name.endswith('_deep'))[1]
  d = tempfile.mkdtemp(prefix='logica_verif_c16r_')
  try:
    p = os.path.join(d, 'replay.py')
    with open(p, 'w') as f:
      f.write(kern.PRELUDE % os.environ.get('VERIF_REPO', '/repo') + src + body +
              '\nimport sys\nsys.exit(0 if %s(%s) else 7)\n' % (name, args))
    r = subprocess.run([sys.executable, p], stdout=subprocess.PIPE, stderr=subprocess.STDOUT, text=True)
    return (r.returncode != 0, 'Unify outcome differs from the structural meet / is not symmetric or idempotent (exit %d)' % r.returncode,
            {'call': '%s(%s)' % (name, args), 'output': r.stdout[-800:]})
  finally:
    shutil.rmtree(d, ignore_errors=True)


def run():
  t0 = time.time()
  out = fw.Outcome('C16', 'other', t0)
  thorough = fw.tier() == 'thorough'
  src = K.HEAD + K.TRIPLES + K.CLOSE
  names = []
  for tc in range(5):
    n, sfn = K.close_fn(tc)
    names.append(n)
    src += sfn
  for ca in K.CTORS:
    for cb in K.CTORS:
      n, s = K.pair_fn(ca, cb, nfields=1)
      names.append(n)
      src += s
      if thorough and 'open' in (ca, cb) or thorough and 'closed' in (ca, cb):
        n, s = K.pair_fn(ca, cb, nfields=2, deep=False)
        names.append(n)
        src += s
  if thorough:
    # fields / elements of depth 2 (lists inside records) on one field
    for ca in ('open', 'closed'):
      for cb in ('open', 'closed'):
        n, s = K.pair_fn(ca, cb, nfields=1, deep=True)
        names.append(n)
        src += s
  triples = [(a, b, c) for a in range(4) for b in range(4) for c in range(4)]
  if not thorough:
    rnd = random.Random(fw.seed())
    must = [(2, 2, 2), (2, 3, 2), (0, 0, 1), (0, 0, 0), (3, 2, 3), (1, 0, 1)]
    rest = [t for t in triples if t not in must]
    rnd.shuffle(rest)
    triples = must + rest[:6]
  for t in triples:
    n, s = K.triple_fn(*t)
    names.append(n)
    src += s
  res = kernels.run_kernels(out, "Unify", src, names, 3600 if thorough else 1500, replay_k)
  confirmed = [n for n in names if res[n].get('verdict') == 'confirmed']
  out.coverage.update({
      'evaluations': len(names),
      'distinct_nontrivial': len([n for n in confirmed if res[n].get('twin') == 'reachable']),
      'rule': 'one case = one harness function (a pair or triple of top-level constructors with symbolic payload codes); non-trivial = CrossHair "Confirmed over all paths" and its reachability twin violated',
      'samples': [{'function': n, 'verdict': res[n].get('verdict'), 'seconds': res[n].get('seconds')} for n in names[:6]],
      'functions_encoded': FUNCTIONS,
      'bounds': {'atoms': 7, 'constructors': K.CTORS, 'record_fields': (['a', 0] if thorough else ['a']),
                 'pairs': 'all ordered pairs of terms of depth <=1 over one field (quick); two fields and depth-2 payloads in records (thorough)',
                 'triples': '%d constructor triples x 343 atom payloads, all 6 unification orders' % len(triples)},
      'explanation': ('CrossHair executes the real Unify on every pair (triple) of type terms within the bound; the postcondition '
                      'compares the outcome with an independent structural meet written in the harness: clash iff no common instance, '
                      'both references denote the meet, same in either argument order, unchanged by repetition, and order-independent '
                      'for clash-free triples.  A claim is made only for functions that come back "Confirmed over all paths".'),
      'exhaustive': True,
      'design_ref': 'DESIGN.md §3 C16',
  })
  out.assumptions = [
      'type terms: atoms {Any, Singular, Sequential, Num, Str, Bool, Time}, [atom], open and closed records over field a (quick) / fields a and 0 with atoms or lists of atoms (thorough)',
      'the harness-side meet is the specification (trusted): Any is top; Singular excludes lists; Sequential admits Str and lists; Singular meets Sequential in Str; records merge field-wise, open<=closed requires the open fields to exist',
      'clash is read off VeryConcreteType (a BadType anywhere in the rendered structure)',
      'CloseRecord kernels: an open record {a: atom} reached through 1 or 2 unified references is closed through the root or through an alias; all handles must then denote the closed record and a third term (atom, [atom], open {a}, open {0}, closed {a}) unified through either handle must give the meet with the closed record',
      'outside: depth 3, more than two fields, cyclic references',
  ]
  return out.finish()


def replay(path):
  print(open(path).read())
  return 0
