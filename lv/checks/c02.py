"""C02 — aggregation, distinct and negation follow the documented semantics."""
from . import tvrun

FUNCTIONS = [
    'parser_py/parse.py: ParseFile incl. MultiBodyAggregation.Rewrite, AggergationsAsExpressions, ParseCombine/ParseConciseCombine/ParseUltraConciseCombine, ParseNegation, ParsePropositionalImplication (concretely per catalogue program)',
    'compiler/rule_translate.py: HeadToSelect, ExtractRuleStructure (distinct_vars), AsSql GROUP BY branch, DisambiguateCombineVariables',
    'compiler/expr_translate.py: ConvertToSql combine branch, ConvertToSqlForGroupBy',
    'compiler/universe.py: SubqueryTranslator.TranslateRule, SingleRuleSql(is_combine=True)',
    'compiler/dialects.py: SqLiteDialect.DecorateCombineRule (MagicalEntangle)',
    'emitted SQLite SQL text (GROUP BY, correlated scalar sub-queries, SUM/MIN/MAX/COUNT DISTINCT/JSON_GROUP_ARRAY/DistinctListAgg/ArgMin/ArgMax modelled in lv/sqlsem.py)',
]
ASSUMPTIONS = [
    'program shape from the seeded catalogue family "agg" (lv/gen.py): predicate-level aggregation with 0-2 keys and 1-2 aggregated arguments, multi-body aggregation, distinct, the three combine syntaxes correlated with 1-2 outer variables, two combines sharing a local variable name, nested combines, negation of atoms and conjunctions, =>, ArgMin/ArgMax, aggregated predicate read by a consumer; family "sugarbase": functional calls inside negations, combines and implications, multi-rule predicates, value aggregation',
    'database: <=K rows per table (K=2, K=3 when one atom feeds the aggregate), integers in [-2^20,2^20]; the aggregated column of W may be NULL in the "nullable" programs, join columns are never NULL',
    'ArgMin/ArgMax: values of one group pairwise distinct (ties are excepted by the property)',
    'Count of nothing is 0 (number of distinct non-null values), List order is not compared (multiset), a zero-key aggregating predicate has exactly one row',
    'trusted: lv/sqlsem.py, lv/refsem.py, z3; outside: Avg, aggregates over strings, ArgMinK/ArgMaxK with k>1',
]


def run():
  return tvrun.run_tv('C02', {'agg': (96, 6000, None), 'sugarbase': (24, 1500, None), 'kfc02': (2, 2, None)}, FUNCTIONS, ASSUMPTIONS, 'DESIGN.md §3 C02')


def replay(path):
  return tvrun.replay_tv(path)
