"""CrossHair harness source for C14(a): the real Concertina scheduler on symbolic DAGs."""

HEAD = r'''
import io, contextlib
with contextlib.redirect_stdout(io.StringIO()):
  from common import concertina_lib

# terminal drawing is irrelevant to the property (and clashes with CrossHair's datetime)
concertina_lib.Concertina.Display = lambda self: None
concertina_lib.Concertina.UpdateDisplay = lambda self, final=False: None

PERMS4 = [[0,1,2,3],[0,1,3,2],[0,2,1,3],[0,2,3,1],[0,3,1,2],[0,3,2,1],[1,0,2,3],[1,0,3,2],[1,2,0,3],
          [1,2,3,0],[1,3,0,2],[1,3,2,0],[2,0,1,3],[2,0,3,1],[2,1,0,3],[2,1,3,0],[2,3,0,1],[2,3,1,0],
          [3,0,1,2],[3,0,2,1],[3,1,0,2],[3,1,2,0],[3,2,0,1],[3,2,1,0]]


class Recorder(object):
  def __init__(self):
    self.log = []
    self.final_result = {}
    self.completion_time = {}

  def Run(self, action):
    self.log.append(action['predicate'])


class FakePath(object):
  def __init__(self, owner):
    self.owner = owner

  def isfile(self, name):
    return True


class FakeOs(object):
  """stands in for `os` inside concertina_lib: the stop-signal file exists; its content is
  empty until probe number `stop_after`, non-empty from then on."""

  def __init__(self, stop_after):
    self.stop_after = stop_after
    self.probes = 0
    self.path = FakePath(self)

  def getenv(self, k, d=None):
    return d


class FakeFile(object):
  def __init__(self, text):
    self.text = text

  def __enter__(self):
    return self

  def __exit__(self, *a):
    return False

  def read(self):
    return self.text


def run_plan(n, edges, names, groups, stop_after):
  """edges: set of (i, j) i<j meaning j requires i.  groups: list of (member indices in
  declared order, mode, repetitions).  Returns (log, fake_os)."""
  config = []
  for j in range(n):
    config.append({'name': names[j], 'type': 'intermediate',
                   'requires': [names[i] for i in range(n) if (i, j) in edges],
                   'action': {'predicate': names[j], 'launcher': 'none'}})
  iterations = {}
  for gi, (members, mode, reps) in enumerate(groups):
    iterations['It%d' % gi] = {'predicates': [names[m] for m in members], 'repetitions': reps,
                               'stop_signal': ('/signal%d' % gi) if stop_after is not None else None,
                               'mode': mode}
  fake = FakeOs(stop_after)
  concertina_lib.os = fake

  def fake_open(name, *a, **k):
    fake.probes += 1
    return FakeFile('stop' if fake.probes > fake.stop_after else '')
  concertina_lib.open = fake_open
  rec = Recorder()
  c = concertina_lib.Concertina(config, rec, display_mode='silent', iterations=iterations)
  c.Run()
  return rec.log, fake


def check_log(n, edges, names, groups, log, stopped):
  first = {}
  for k, a in enumerate(log):
    if a not in first:
      first[a] = k
  # termination / everything ran
  for j in range(n):
    if names[j] not in first:
      return False
  # every action's first run comes after the first completion of each prerequisite
  for (i, j) in edges:
    if not first[names[i]] < first[names[j]]:
      return False
  in_group = {}
  for members, mode, reps in groups:
    for m in members:
      in_group[m] = True
  # non-iterated actions run exactly once
  for j in range(n):
    if j not in in_group and log.count(names[j]) != 1:
      return False
  # members of an iteration run round-robin in declared order, the declared number of times
  last = {}
  for k, a in enumerate(log):
    last[a] = k
  for members, mode, reps in groups:
    mnames = [names[m] for m in members]
    seq = [a for a in log if a in mnames]
    full = mnames * reps
    if not stopped:
      if seq != full:
        return False
    else:
      if len(seq) < len(mnames) or seq != full[:len(seq)]:
        return False
    # a reader outside the iteration starts only after the iteration has finished producing
    # the table it reads
    for (i, j) in edges:
      if i in members and j not in members:
        if not last[names[i]] < first[names[j]]:
          return False
  return True
'''


def one_group(n, gstart, glen, mode, perm=0, with_stop=False):
  """harness: n actions, one iteration group occupying indices [gstart, gstart+glen); the
  edge set (and the repetition count, or the stop instant) is symbolic; `perm` (concrete)
  decides which lexicographic names the indices get."""
  pairs = [(i, j) for i in range(n) for j in range(i + 1, n)]
  args = ', '.join('e%d%d: bool' % p for p in pairs)
  edge_list = ', '.join('(%d, %d)' % p for p in pairs)
  evars = ', '.join('e%d%d' % p for p in pairs)
  members = list(range(gstart, gstart + glen))
  if mode == 'diamond':
    upper, lower = members, []
  else:
    upper, lower = members[:glen // 2], members[glen // 2:]
  name = 'k_plan_n%d_g%d_%d_%s_p%d%s' % (n, gstart, glen, mode, perm, '_stop' if with_stop else '')
  if with_stop:
    extra_args = 'stop_after: int'
    pre = '0 <= stop_after <= 4'
    reps = '3'
    stop = 'stop_after'
  else:
    extra_args = 'reps: int'
    pre = '1 <= reps <= 3'
    reps = 'reps'
    stop = 'None'
  src = '''

def %(name)s(%(args)s, %(extra_args)s) -> bool:
  """
  pre: %(pre)s
  post: _
  """
  pairs = [%(edge_list)s]
  flags = [%(evars)s]
  edges = set(p for p, f in zip(pairs, flags) if f)
  members = %(members)r
  upper, lower = %(upper)r, %(lower)r
  # shape invariant I of plans the compiler emits: outside prerequisites of the lower half are
  # also prerequisites of the upper half
  ext_upper = set(i for (i, j) in edges if j in upper and i not in members)
  ext_lower = set(i for (i, j) in edges if j in lower and i not in members)
  if not ext_lower <= ext_upper:
    return True
  order = PERMS4[%(perm)d]
  names = ['P%%d' %% order[j] for j in range(%(n)d)]
  groups = [(members, %(mode)r if %(mode)r == 'diamond' else None, %(reps)s)]
  log, fake = run_plan(%(n)d, edges, names, groups, %(stop)s)
  stopped = fake.stop_after is not None and fake.probes > fake.stop_after
  return check_log(%(n)d, edges, names, groups, log, stopped)
''' % dict(name=name, args=args, edge_list=edge_list, evars=evars, members=members, upper=upper,
           lower=lower, n=n, mode=mode, perm=perm, extra_args=extra_args, pre=pre, reps=reps, stop=stop)
  return name, src


def two_groups(perm):
  """harness: 6 actions 0..5; group A = [1,2] , group B = [3,4]; B reads A.  `free` symbolic
  edges among the rest."""
  name = 'k_plan_two_groups_%d' % perm
  src = '''

def %(name)s(e13: bool, e14: bool, e23: bool, e24: bool, e35: bool, e05: bool, ra: int, rb: int) -> bool:
  """
  pre: 1 <= ra <= 3 and 1 <= rb <= 3
  post: _
  """
  pairs = [(0, 1), (0, 2), (1, 3), (1, 4), (2, 3), (2, 4), (3, 5), (4, 5), (0, 5)]
  flags = [True, True, e13, e14, e23, e24, e35, e35, e05]
  edges = set(p for p, f in zip(pairs, flags) if f)
  if not (e13 or e23 or e14 or e24):
    return True
  # invariant I for both groups
  for members in ([1, 2], [3, 4]):
    upper, lower = members[:1], members[1:]
    ext_upper = set(i for (i, j) in edges if j in upper and i not in members)
    ext_lower = set(i for (i, j) in edges if j in lower and i not in members)
    if not ext_lower <= ext_upper:
      return True
  # the second group must depend on the whole first group through its first member
  # (as compiled plans do: every member of a later recursion reads the final table of the earlier one)
  namesets = [['A', 'B1', 'B2', 'C1', 'C2', 'D'], ['Z', 'B1', 'B2', 'C1', 'C2', 'A'], ['A', 'Y1', 'Y2', 'C1', 'C2', 'D'],
              ['A', 'B1', 'B2', 'A1', 'A2', 'D'], ['M', 'N1', 'N2', 'K1', 'K2', 'L'], ['A', 'C1', 'C2', 'B1', 'B2', 'D']]
  names = namesets[%(perm)d]
  groups = [([1, 2], None, ra), ([3, 4], None, rb)]
  log, fake = run_plan(6, edges, names, groups, None)
  return check_log(6, edges, names, groups, log, False)
''' % dict(name=name, perm=perm)
  return name, src
