"""CrossHair harness source for C15 / C19: lemmas about the real scanner functions of
parser_py/parse.py (Traverse, RemoveComments, IsWhole, SplitRaw, Split, Strip, StripSpaces,
HeritageAwareString slicing) over all strings within a length bound."""

HEAD = r'''
from parser_py import parse

STRINGISH = ['#', '"', "'", chr(92), '`', '3', '/']
PRES = %(PRES)r
POSTS = %(POSTS)r
SEPS = [',', ';', ':-', '|', '==', '=', ' in ']


def end_state(s):
  """(state, status) after the real Traverse consumed s ('' / 'OK' for the empty string)"""
  state, status = '', 'OK'
  for (_, state, status) in parse.Traverse(s):
    pass
  return state, status


def in_code(s):
  """the scanner is in code state (not inside a string / comment) after s, and s scans fine.
  Comment states yield nothing, so a sentinel character is appended: it is yielded, with a
  non-string state on top, exactly when the scanner is in code state there."""
  last = None
  try:
    for item in parse.Traverse(s + 'Z'):
      if item[2] != 'OK':
        return False
      last = item
  except Exception:
    return False
  if last is None or last[0] != len(s):
    return False
  state = last[1]
  return not state or state[-1] not in STRINGISH


def cuts(s, sep):
  """cumulative end offsets of the parts SplitRaw produces, or the exception type name"""
  try:
    parts = parse.SplitRaw(s, sep)
  except parse.ParsingException:
    return 'ParsingException'
  out = []
  acc = 0
  for p in parts[:-1]:
    acc += len(p)
    out.append(acc)
    acc += len(sep)
  return out
'''

OPACITY = '''

def opaque(pre_i, post_i, body, q, filler):
  """scanning pre + q body q + post behaves like scanning pre + q filler q + post"""
  pre, post = PRES[pre_i], POSTS[post_i]
  s_b = pre + q + body + q + post
  s_x = pre + q + filler + q + post
  shift = len(body) - len(filler)
  lit_lo = len(pre)
  lit_hi_x = len(pre) + 2 * len(q) + len(filler)
  # bracket / string state after the literal does not depend on the body
  if end_state(pre + q + body + q) != end_state(pre + q + filler + q):
    return False
  if parse.IsWhole(s_b) != parse.IsWhole(s_x):
    return False
  for sep in SEPS:
    cb, cx = cuts(s_b, sep), cuts(s_x, sep)
    if isinstance(cx, str) or isinstance(cb, str):
      if cb != cx:
        return False
      continue
    want = [c if c <= lit_lo else c + shift for c in cx]
    for c in cx:
      if lit_lo < c < lit_hi_x:
        return False      # a cut inside the literal
    if cb != want:
      return False
  return True


def k_opacity_dq(body: str, pre_i: int, post_i: int) -> bool:
  """
  pre: len(body) <= %(BODY)d and 0 <= pre_i < %(NPRE)d and 0 <= post_i < %(NPOST)d
  post: _
  """
  if '"' in body or chr(10) in body:
    return True
  return opaque(pre_i, post_i, body, '"', 'x')


def k_opacity_backtick(body: str, pre_i: int, post_i: int) -> bool:
  """
  pre: len(body) <= %(BODY)d and 0 <= pre_i < %(NPRE)d and 0 <= post_i < %(NPOST)d
  post: _
  """
  if '`' in body:
    return True
  return opaque(pre_i, post_i, body, '`', 'x')


def k_opacity_triple(body: str, pre_i: int, post_i: int) -> bool:
  """
  pre: len(body) <= %(BODY)d and 0 <= pre_i < %(NPRE)d and 0 <= post_i < %(NPOST)d
  post: _
  """
  if '"' in body:
    return True
  return opaque(pre_i, post_i, body, '"""', 'x')


def k_opacity_sq(body: str, pre_i: int, post_i: int) -> bool:
  """
  pre: len(body) <= %(BODY)d and 0 <= pre_i < %(NPRE)d and 0 <= post_i < %(NPOST)d
  post: _
  """
  if "'" in body or chr(92) in body:
    return True
  return opaque(pre_i, post_i, body, "'", 'x')
'''

COMMENTS = '''

TOKENS = ['/*', '*/', '"""']


def straddles(pre, post):
  """would joining pre and post create a 2-3 character token across the seam?"""
  for k in (1, 2):
    for t in TOKENS:
      for cut in range(1, len(t)):
        if pre.endswith(t[:cut]) and post.startswith(t[cut:]):
          return True
  return False


def removed(s):
  try:
    return parse.RemoveComments(s)
  except parse.ParsingException:
    return 'ParsingException'


def k_block_comment_invisible(pre: str, c: str, post: str) -> bool:
  """
  pre: len(pre) <= 1 and len(c) <= %(CLEN)d and len(post) <= %(POSTLEN)d
  post: _
  """
  if '*/' in c or (c + '*').find('*/') >= 0:
    return True
  if not in_code(pre) or straddles(pre, post) or straddles(pre, '/*') or straddles('*/', post):
    return True
  return removed(pre + '/*' + c + '*/' + post) == removed(pre + post)


def k_line_comment_invisible(pre: str, c: str, post: str) -> bool:
  """
  pre: len(pre) <= 1 and len(c) <= %(CLEN)d and len(post) <= %(POSTLEN)d
  post: _
  """
  if chr(10) in c:
    return True
  if not in_code(pre) or straddles(pre, '#') or straddles(pre, chr(10) + post):
    return True
  return removed(pre + '#' + c + chr(10) + post) == removed(pre + chr(10) + post)


def k_no_comment_left(s: str) -> bool:
  """
  pre: len(s) <= %(FREE)d
  post: _
  """
  r = removed(s)
  if r == 'ParsingException':
    return True
  # what is left contains no comment opener in code state
  for i in range(len(r)):
    if in_code(r[:i]) and (r[i] == '#' or r[i:i + 2] == '/*'):
      return False
  return True
'''

LAYOUT = '''

def k_strip_spaces(s: str, l: int, r: int) -> bool:
  """
  pre: len(s) <= 3 and 0 <= l <= 2 and 0 <= r <= 2
  post: _
  """
  padded = ' ' * l + s + chr(10) * r
  return parse.Strip(padded) == parse.Strip(s) and parse.StripSpaces(padded) == parse.StripSpaces(s)


def k_strip_parens(s: str) -> bool:
  """
  pre: len(s) <= %(FREE1)d
  post: _
  """
  if parse.IsWhole(s):
    return parse.Strip('(' + s + ')') == parse.Strip(s)
  return parse.Strip('(' + s + ')') == parse.StripSpaces('(' + s + ')')


def k_strip_spaces_safe(s: str) -> bool:
  """
  pre: len(s) <= 5
  post: _
  """
  r = parse.StripSpaces(s)
  return (len(r) <= len(s) and r in s and (r == '' or (not r[0].isspace() and not r[-1].isspace()))
          and s.strip() == r)


def split_rejoin(s, sep):
  try:
    raw = parse.SplitRaw(s, sep)
  except parse.ParsingException:
    return True
  if sep.join(raw) != s:
    return False
  parts = parse.Split(s, sep)
  return len(parts) == len(raw) and all(p == parse.Strip(r) for p, r in zip(parts, raw))


def k_trailing_semicolon(s: str) -> bool:
  """
  pre: len(s) <= %(FREE)d
  post: _
  """
  if ';' in s or not in_code(s) or not parse.IsWhole(s):
    return True
  if s.endswith('|'):
    return True   # SplitRaw never splits next to a '|' (its guard against reading || as two |); no statement ends in |
  try:
    a = [p for p in parse.Split(s, ';') if p]
    b = [p for p in parse.Split(s + ';', ';') if p]
  except parse.ParsingException:
    return True
  return a == b
'''

SPANS = '''

def span_ok(i, j, a, b, use_stop):
  h = parse.HeritageAwareString('abcdefghij')
  base = h[i:j]
  if base.heritage[base.start:base.stop] != str(base):
    return False
  if b < -len(base):
    return True        # outside Python's in-range negative indices; no caller does this
  sub = base[a:b] if use_stop else base[a:]
  return sub.heritage == 'abcdefghij' and sub.heritage[sub.start:sub.stop] == str(sub)


def k_span_index(i: int, j: int, k: int) -> bool:
  """
  pre: 0 <= i < j <= 10 and 0 <= k < j - i
  post: _
  """
  h = parse.HeritageAwareString('abcdefghij')
  base = h[i:j]
  return str(base[k]) == 'abcdefghij'[i + k]
'''

# C19: lexical clause -- RemoveComments raises ParsingException exactly when an independent
# scanner-state specification says so, and nothing else ever
LEXICAL = '''

def spec_scan(s):
  """independent specification of the lexical errors: -> 'unmatched' | 'eol' | 'ok'"""
  stack = []
  mode = 'code'
  i = 0
  n = len(s)
  while i < n:
    c = s[i]
    if mode == 'line':
      if c == chr(10):
        mode = 'code'
      else:
        i += 1
        continue
    elif mode == 'block':
      if s[i:i + 2] == '*/':
        mode = 'code'
        i += 2
      else:
        i += 1
      continue
    elif mode == 'dq':
      if c == chr(10):
        return 'eol'
      if c == '"':
        mode = 'code'
      i += 1
      continue
    elif mode == 'sq':
      if c == chr(92):
        i += 2
        continue
      if c == "'":
        mode = 'code'
      i += 1
      continue
    elif mode == 'bt':
      if c == '`':
        mode = 'code'
      i += 1
      continue
    elif mode == 'triple':
      if s[i:i + 3] == '"""':
        mode = 'code'
        i += 3
      else:
        i += 1
      continue
    # code
    if mode == 'code':
      if c == '#':
        mode = 'line'
        i += 1
        continue
      if s[i:i + 3] == '"""':
        mode = 'triple'
        i += 3
        continue
      if c == '"':
        mode = 'dq'
      elif c == "'":
        mode = 'sq'
      elif c == '`':
        mode = 'bt'
      elif s[i:i + 2] == '/*':
        mode = 'block'
        i += 2
        continue
      elif c in '([{':
        stack.append(c)
      elif c in ')]}':
        if stack and stack[-1] == {')': '(', ']': '[', '}': '{'}[c]:
          stack.pop()
        else:
          return 'unmatched'
    i += 1
  return 'ok'


def k_lexical_errors(s: str) -> bool:
  """
  pre: len(s) <= %(FREE)d
  post: _
  """
  want = spec_scan(s)
  try:
    parse.RemoveComments(s)
    got = 'ok'
  except parse.ParsingException as e:
    got = 'unmatched' if 'matches nothing' in str(e) else 'eol'
  return got == want
'''


def split_fn(i, free):
  name = 'k_split_rejoin_%d' % i
  return name, '''

def %s(s: str) -> bool:
  """
  pre: len(s) <= %d
  post: _
  """
  return split_rejoin(s, SEPS[%d])
''' % (name, free, i)


def span_fn(i, j):
  name = 'k_span_%d_%d' % (i, j)
  return name, '''

def %s(a: int, b: int, use_stop: bool) -> bool:
  """
  pre: 0 <= a <= 12 and -10 <= b <= 12
  post: _
  """
  return span_ok(%d, %d, a, b, use_stop)
''' % (name, i, j)


def source(thorough):
  p = dict(PRES=['', '(', 'P(', 'x == '] if not thorough else ['', '(', 'P(', '[a,', 'x == ', 'A(x) :- '],
           POSTS=['', ')', ', b', ';'] if not thorough else ['', ')', ', b', ';', ' | c', ']'],
           BODY=2, CLEN=1 if not thorough else 2, POSTLEN=1 if not thorough else 2,
           FREE=3 if not thorough else 4, FREE1=3)
  p['NPRE'] = len(p['PRES'])
  p['NPOST'] = len(p['POSTS'])
  src = HEAD % p + OPACITY % p + COMMENTS % p + LAYOUT % p + SPANS + LEXICAL % p
  names = ['k_opacity_dq', 'k_opacity_backtick', 'k_opacity_triple', 'k_opacity_sq',
           'k_block_comment_invisible', 'k_line_comment_invisible', 'k_no_comment_left',
           'k_strip_spaces', 'k_strip_parens', 'k_strip_spaces_safe', 'k_trailing_semicolon', 'k_span_index']
  for i in range(7):
    n, s = split_fn(i, 3 if not thorough else 4)
    names.append(n)
    src += s
  for (i, j) in [(0, 10), (2, 7), (3, 3), (5, 10)]:
    n, s = span_fn(i, j)
    names.append(n)
    src += s
  return src, names, ['k_lexical_errors']


# ---- whole-ParseFile invariance under layout noise (solver-driven enumeration of placements)
WHOLE_PROGRAMS = [
    ('facts_rules', 'T(1, "a b");\nT(2, "c:-d");\nP(x, y) :- T(x, y), x > 0 | T(y, x), ~T(x, x);\n'),
    ('strings', 'S("(", \'[\', "}); -- /* #", """tri"ple""");\nQ(x ++ ")") :- S(x, y, z, w), x != ";";\n'),
    ('combines', 'P(x, u, v, w) :- G(x), u == Sum{ y :- E(x, y) }, v Max= ( y :- F(x, y), y > u ), w == ( combine List= y + v :- E(y, x) );\n'),
    ('aggregation', 'A(x, s? += y, m? Max= y) distinct :- E(x, y);\nB(x) Min= y :- E(x, y);\nC(x) = y :- B(x) == y, A(x, s: y);\n'),
    ('records_lists', 'R({ a: 1, b: [1, 2, 3] });\nP(r.a, l, Element(l, 0), x) :- R(r), l == r.b, x in l, x in [r.a, 2];\n'),
    ('if_impl', 'P(x, y) :- G(x), y == ( if x > 1 then x + 1 else ( if x < 0 then 0 else x ) ), ( E(x, z) => F(z, x) );\n'),
    ('functors_annotations', '@Engine("sqlite");\n@OrderBy(Top, "col0 desc");\n@Limit(Top, 2);\nTop(x) :- Data(x);\nOther(x) :- E(x, y);\nTotal() += x :- Top(x);\nOtherTotal := Total(Data: Other);\n'),
    ('denotations', 'P(x, y) order_by("col0", "col1 desc") limit(3) :- E(x, y), y in Range(x);\nF(x) = 2 * x + ( -x );\nQ(F(x), z) :- P(x, y), z == F(F(y));\n'),
]

WHOLE = r'''
WHOLE_TEXTS = %(texts)r
NOISE = [' ', '\n', '\t', ' /* note */ ', ' # note\n', '\n\n', ' /* ); " :- [ */ ', ' # ); " :- [\n']


def _ws_positions(text):
  # offsets of blanks that are outside string literals (own scanner: double-quoted, single-quoted
  # with backslash escapes, backticked and triple-quoted forms)
  out = []
  i = 0
  n = len(text)
  while i < n:
    c = text[i]
    if text.startswith('"""', i):
      j = text.index('"""', i + 3)
      i = j + 3
    elif c == '"':
      i = text.index('"', i + 1) + 1
    elif c == '`':
      i = text.index('`', i + 1) + 1
    elif c == "'":
      j = i + 1
      while text[j] != "'":
        j += 2 if text[j] == chr(92) else 1
      i = j + 1
    else:
      if c in ' \n':
        out.append(i)
      i += 1
  return out


WHOLE_POS = [_ws_positions(t) for t in WHOLE_TEXTS]


def _plain(n):
  """parse tree without the source snippets it carries"""
  if isinstance(n, dict):
    return dict((k, _plain(v)) for k, v in n.items() if k not in ('full_text', 'expression_heritage'))
  if isinstance(n, list):
    return [_plain(x) for x in n]
  if isinstance(n, str):
    return str(n)
  return n


def _spans_ok(n):
  if isinstance(n, parse.HeritageAwareString):
    return n.heritage[n.start:n.stop] == str(n)
  if isinstance(n, dict):
    return all(_spans_ok(v) for v in n.values())
  if isinstance(n, list):
    return all(_spans_ok(x) for x in n)
  return True


def _parse(text):
  parse.TOO_MUCH = 'too much'
  return parse.ParseFile(text)['rule']


WHOLE_BASE = [_plain(_parse(t)) for t in WHOLE_TEXTS]


KEYWORDS = ('in', 'combine', 'if', 'then', 'else', 'is', 'not')


def _next_to_keyword(text, at):
  import re
  before = re.findall(r'[A-Za-z_]+$', text[:at])
  after = re.findall(r'^[A-Za-z_]+', text[at + 1:])
  return (before and before[0] in KEYWORDS) or (after and after[0] in KEYWORDS)


def whole_ok(pi, pos, kind):
  text = WHOLE_TEXTS[pi]
  at = WHOLE_POS[pi][pos]
  noisy = text[:at] + NOISE[kind] + text[at + 1:] if kind in (1, 4, 5, 7) or text[at] == ' ' else text[:at] + NOISE[kind] + text[at:]
  try:
    rules = _parse(noisy)
  except parse.ParsingException:
    # known finding KF-C15-keyword-needs-blanks: a line break or tab (instead of a blank) right next
    # to a keyword operator is a parse error; only that outcome, only there, is accepted
    return (chr(10) in NOISE[kind] or chr(9) in NOISE[kind]) and bool(_next_to_keyword(text, at))
  return _plain(rules) == WHOLE_BASE[pi] and _spans_ok(rules)


def semicolon_ok(pi, variant):
  text = WHOLE_TEXTS[pi]
  if variant == 0:
    t2 = text.rstrip().rstrip(';') + '\n'       # last statement without its semicolon
  elif variant == 1:
    t2 = text.rstrip() + '\n\n  \n'                 # trailing blank lines
  else:
    t2 = '\n  ' + text                             # leading blanks
  rules = _parse(t2)
  return _plain(rules) == WHOLE_BASE[pi] and _spans_ok(rules)
'''


def whole_source():
  from .. import variants
  src = WHOLE % dict(texts=[t for n, t in WHOLE_PROGRAMS]) + variants.UNTRACED
  names = []
  for i, (name, text) in enumerate(WHOLE_PROGRAMS):
    npos = len([1 for _ in text])   # placeholder, real count computed in the harness
    fn = 'k_whole_layout_%s' % name
    names.append(fn)
    src += '''

def %(fn)s(pos: int, kind: int) -> bool:
  """
  pre: 0 <= pos < len(WHOLE_POS[%(i)d]) and 0 <= kind < len(NOISE)
  post: _
  """
  p = concretise(pos, len(WHOLE_POS[%(i)d]))
  k = concretise(kind, len(NOISE))
  with untraced():
    return whole_ok(%(i)d, p, k)
''' % dict(fn=fn, i=i)
  names.append('k_whole_semicolon')
  src += '''

def k_whole_semicolon(pi: int, variant: int) -> bool:
  """
  pre: 0 <= pi < len(WHOLE_TEXTS) and 0 <= variant < 3
  post: _
  """
  p = concretise(pi, len(WHOLE_TEXTS))
  v = concretise(variant, 3)
  with untraced():
    return semicolon_ok(p, v)
'''
  return 'from parser_py import parse\n' + src, names


# ---- redundant parentheses around expressions / propositions of catalogue programs
PAREN_STYLES = ['(%s)', '( %s )', '((%s))', '( (%s) )', '(\n  (%s)\n)']


def paren_variants(nprog=10, per_prog=25):
  """[(original text, [variant texts])] built on the catalogue AST: the k-th expression (or atom /
  comparison) of a program is wrapped in redundant parentheses in five layouts"""
  from .. import gen, lang
  from ..lang import (Var, Num, Bin, UMinus, Builtin, ListE, RecE, Field, Elem, Size, If, Call, Paren, Atom, Cmp, Conj,
                      Node, mapn, Rule, Program)
  EXPR = (Var, Num, Bin, UMinus, Builtin, ListE, RecE, Field, Elem, Size, If, Call)
  out = []
  seeds = [('core', s) for s in range(nprog - 4)] + [('agg', s) for s in (4, 6, 7, 17)]
  for fam, s in seeds:
    case = getattr(gen, fam + '_case')(s)
    prog = case.prog
    base = prog.text()
    variants = []
    # count wrappable nodes
    concise_lhs = set()

    def lhs(n):
      # the target of `v Op= (e :- body)` is a variable name, not an expression position
      if isinstance(n, Cmp) and isinstance(n.b, lang.AggE) and n.b.style == 'concise':
        concise_lhs.add(id(n.a))
      if isinstance(n, Node):
        for c in lang.children(n):
          lhs(c)
    for r in prog.rules:
      if r.body is not None:
        lhs(r.body)

    def count(n, acc):
      if (isinstance(n, EXPR) or isinstance(n, (Atom, Cmp))) and id(n) not in concise_lhs:
        acc.append(n)
      if isinstance(n, Node):
        for c in lang.children(n):
          count(c, acc)
    nodes = []
    for r in prog.rules:
      for part in list(r.args) + [v for _, v in r.nargs if v is not None] + [r.value, r.body]:
        if part is not None and isinstance(part, Node):
          count(part, nodes)
    step = max(1, len(nodes) // per_prog)
    for k in range(0, len(nodes), step):
      target = nodes[k]
      style = PAREN_STYLES[(k // step) % len(PAREN_STYLES)]

      def fn(n):
        if n is target:
          if isinstance(n, (Atom, Cmp)):
            w = Paren(Var('__PROP__'))
            w.style = style
            w.prop = n
            return w
          w = Paren(n)
          w.style = style
          return w
        if isinstance(n, Node):
          return mapn(n, fn)
        return n

      def ap(v):
        return None if v is None else (fn(v) if isinstance(v, Node) else v)
      rules = []
      for r in prog.rules:
        rr = Rule(r.pred, [ap(a) for a in r.args], [(kk, ap(v)) for kk, v in r.nargs], ap(r.value), r.distinct,
                  ap(r.body), r.value_style)
        if getattr(r, 'denotation', None):
          rr.denotation = r.denotation
        rules.append(rr)
      try:
        text = Program(rules, prog.annotations, prog.ext, prog.engine_line).text()
      except TypeError:
        # a wrapped proposition: render it by hand in place of the marker
        continue
      if '__PROP__' in text:
        continue
      if text != base:
        variants.append(text)
    out.append((base, variants))
  return out


PARENS = r'''
PAREN_CASES = %(cases)r
PAREN_BASE = [_plain(_parse(b)) for b, vs in PAREN_CASES]


def parens_ok(pi, vi):
  base, variants = PAREN_CASES[pi]
  rules = _parse(variants[vi])
  return _plain(rules) == PAREN_BASE[pi] and _spans_ok(rules)
'''


def parens_source(cases):
  from .. import variants
  src, _names = whole_source()
  src += PARENS % dict(cases=cases)
  names = []
  for i, (b, vs) in enumerate(cases):
    if not vs:
      continue
    fn = 'k_whole_parens_%d' % i
    names.append(fn)
    src += '''

def %(fn)s(v: int) -> bool:
  """
  pre: 0 <= v < %(n)d
  post: _
  """
  j = concretise(v, %(n)d)
  with untraced():
    return parens_ok(%(i)d, j)
''' % dict(fn=fn, n=len(vs), i=i)
  return src, names
