"""CrossHair harness source for C15 / C19: lemmas about the real scanner functions of
parser_py/parse.py (Traverse, RemoveComments, IsWhole, SplitRaw, Split, Strip, StripSpaces,
HeritageAwareString slicing) over all strings within a length bound."""

HEAD = r'''
from parser_py import parse

STRINGISH = ['#', '"', "'", chr(92), '`', '3', '/']
PRES = %(PRES)r
POSTS = %(POSTS)r
SEPS = [',', ';', ':-', '|', '==', '=', ' in ']


def end_state(s):
  """(state, status) after the real Traverse consumed s ('' / 'OK' for the empty string)"""
  state, status = '', 'OK'
  for (_, state, status) in parse.Traverse(s):
    pass
  return state, status


def in_code(s):
  """the scanner is in code state (not inside a string / comment) after s, and s scans fine.
  Comment states yield nothing, so a sentinel character is appended: it is yielded, with a
  non-string state on top, exactly when the scanner is in code state there."""
  last = None
  try:
    for item in parse.Traverse(s + 'Z'):
      if item[2] != 'OK':
        return False
      last = item
  except Exception:
    return False
  if last is None or last[0] != len(s):
    return False
  state = last[1]
  return not state or state[-1] not in STRINGISH


def cuts(s, sep):
  """cumulative end offsets of the parts SplitRaw produces, or the exception type name"""
  try:
    parts = parse.SplitRaw(s, sep)
  except parse.ParsingException:
    return 'ParsingException'
  out = []
  acc = 0
  for p in parts[:-1]:
    acc += len(p)
    out.append(acc)
    acc += len(sep)
  return out
'''

OPACITY = '''

def opaque(pre_i, post_i, body, q, filler):
  """scanning pre + q body q + post behaves like scanning pre + q filler q + post"""
  pre, post = PRES[pre_i], POSTS[post_i]
  s_b = pre + q + body + q + post
  s_x = pre + q + filler + q + post
  shift = len(body) - len(filler)
  lit_lo = len(pre)
  lit_hi_x = len(pre) + 2 * len(q) + len(filler)
  # bracket / string state after the literal does not depend on the body
  if end_state(pre + q + body + q) != end_state(pre + q + filler + q):
    return False
  if parse.IsWhole(s_b) != parse.IsWhole(s_x):
    return False
  for sep in SEPS:
    cb, cx = cuts(s_b, sep), cuts(s_x, sep)
    if isinstance(cx, str) or isinstance(cb, str):
      if cb != cx:
        return False
      continue
    want = [c if c <= lit_lo else c + shift for c in cx]
    for c in cx:
      if lit_lo < c < lit_hi_x:
        return False      # a cut inside the literal
    if cb != want:
      return False
  return True


def k_opacity_dq(body: str, pre_i: int, post_i: int) -> bool:
  """
  pre: len(body) <= %(BODY)d and 0 <= pre_i < %(NPRE)d and 0 <= post_i < %(NPOST)d
  post: _
  """
  if '"' in body or chr(10) in body:
    return True
  return opaque(pre_i, post_i, body, '"', 'x')


def k_opacity_backtick(body: str, pre_i: int, post_i: int) -> bool:
  """
  pre: len(body) <= %(BODY)d and 0 <= pre_i < %(NPRE)d and 0 <= post_i < %(NPOST)d
  post: _
  """
  if '`' in body:
    return True
  return opaque(pre_i, post_i, body, '`', 'x')


def k_opacity_triple(body: str, pre_i: int, post_i: int) -> bool:
  """
  pre: len(body) <= %(BODY)d and 0 <= pre_i < %(NPRE)d and 0 <= post_i < %(NPOST)d
  post: _
  """
  if '"' in body:
    return True
  return opaque(pre_i, post_i, body, '"""', 'x')


def k_opacity_sq(body: str, pre_i: int, post_i: int) -> bool:
  """
  pre: len(body) <= %(BODY)d and 0 <= pre_i < %(NPRE)d and 0 <= post_i < %(NPOST)d
  post: _
  """
  if "'" in body or chr(92) in body:
    return True
  return opaque(pre_i, post_i, body, "'", 'x')
'''

COMMENTS = '''

TOKENS = ['/*', '*/', '"""']


def straddles(pre, post):
  """would joining pre and post create a 2-3 character token across the seam?"""
  for k in (1, 2):
    for t in TOKENS:
      for cut in range(1, len(t)):
        if pre.endswith(t[:cut]) and post.startswith(t[cut:]):
          return True
  return False


def removed(s):
  try:
    return parse.RemoveComments(s)
  except parse.ParsingException:
    return 'ParsingException'


def k_block_comment_invisible(pre: str, c: str, post: str) -> bool:
  """
  pre: len(pre) <= 1 and len(c) <= %(CLEN)d and len(post) <= %(POSTLEN)d
  post: _
  """
  if '*/' in c or (c + '*').find('*/') >= 0:
    return True
  if not in_code(pre) or straddles(pre, post) or straddles(pre, '/*') or straddles('*/', post):
    return True
  return removed(pre + '/*' + c + '*/' + post) == removed(pre + post)


def k_line_comment_invisible(pre: str, c: str, post: str) -> bool:
  """
  pre: len(pre) <= 1 and len(c) <= %(CLEN)d and len(post) <= %(POSTLEN)d
  post: _
  """
  if chr(10) in c:
    return True
  if not in_code(pre) or straddles(pre, '#') or straddles(pre, chr(10) + post):
    return True
  return removed(pre + '#' + c + chr(10) + post) == removed(pre + chr(10) + post)


def k_no_comment_left(s: str) -> bool:
  """
  pre: len(s) <= %(FREE)d
  post: _
  """
  r = removed(s)
  if r == 'ParsingException':
    return True
  # what is left contains no comment opener in code state
  for i in range(len(r)):
    if in_code(r[:i]) and (r[i] == '#' or r[i:i + 2] == '/*'):
      return False
  return True
'''

LAYOUT = '''

def k_strip_spaces(s: str, l: int, r: int) -> bool:
  """
  pre: len(s) <= 3 and 0 <= l <= 2 and 0 <= r <= 2
  post: _
  """
  padded = ' ' * l + s + chr(10) * r
  return parse.Strip(padded) == parse.Strip(s) and parse.StripSpaces(padded) == parse.StripSpaces(s)


def k_strip_parens(s: str) -> bool:
  """
  pre: len(s) <= %(FREE1)d
  post: _
  """
  if parse.IsWhole(s):
    return parse.Strip('(' + s + ')') == parse.Strip(s)
  return parse.Strip('(' + s + ')') == parse.StripSpaces('(' + s + ')')


def k_strip_spaces_safe(s: str) -> bool:
  """
  pre: len(s) <= 5
  post: _
  """
  r = parse.StripSpaces(s)
  return (len(r) <= len(s) and r in s and (r == '' or (not r[0].isspace() and not r[-1].isspace()))
          and s.strip() == r)


def split_rejoin(s, sep):
  try:
    raw = parse.SplitRaw(s, sep)
  except parse.ParsingException:
    return True
  if sep.join(raw) != s:
    return False
  parts = parse.Split(s, sep)
  return len(parts) == len(raw) and all(p == parse.Strip(r) for p, r in zip(parts, raw))


def k_trailing_semicolon(s: str) -> bool:
  """
  pre: len(s) <= %(FREE)d
  post: _
  """
  if ';' in s or not in_code(s) or not parse.IsWhole(s):
    return True
  if s.endswith('|'):
    return True   # SplitRaw never splits next to a '|' (its guard against reading || as two |); no statement ends in |
  try:
    a = [p for p in parse.Split(s, ';') if p]
    b = [p for p in parse.Split(s + ';', ';') if p]
  except parse.ParsingException:
    return True
  return a == b
'''

SPANS = '''

def span_ok(i, j, a, b, use_stop):
  h = parse.HeritageAwareString('abcdefghij')
  base = h[i:j]
  if base.heritage[base.start:base.stop] != str(base):
    return False
  if b < -len(base):
    return True        # outside Python's in-range negative indices; no caller does this
  sub = base[a:b] if use_stop else base[a:]
  return sub.heritage == 'abcdefghij' and sub.heritage[sub.start:sub.stop] == str(sub)


def k_span_index(i: int, j: int, k: int) -> bool:
  """
  pre: 0 <= i < j <= 10 and 0 <= k < j - i
  post: _
  """
  h = parse.HeritageAwareString('abcdefghij')
  base = h[i:j]
  return str(base[k]) == 'abcdefghij'[i + k]
'''

# C19: lexical clause -- RemoveComments raises ParsingException exactly when an independent
# scanner-state specification says so, and nothing else ever
LEXICAL = '''

def spec_scan(s):
  """independent specification of the lexical errors: -> 'unmatched' | 'eol' | 'ok'"""
  stack = []
  mode = 'code'
  i = 0
  n = len(s)
  while i < n:
    c = s[i]
    if mode == 'line':
      if c == chr(10):
        mode = 'code'
      else:
        i += 1
        continue
    elif mode == 'block':
      if s[i:i + 2] == '*/':
        mode = 'code'
        i += 2
      else:
        i += 1
      continue
    elif mode == 'dq':
      if c == chr(10):
        return 'eol'
      if c == '"':
        mode = 'code'
      i += 1
      continue
    elif mode == 'sq':
      if c == chr(92):
        i += 2
        continue
      if c == "'":
        mode = 'code'
      i += 1
      continue
    elif mode == 'bt':
      if c == '`':
        mode = 'code'
      i += 1
      continue
    elif mode == 'triple':
      if s[i:i + 3] == '"""':
        mode = 'code'
        i += 3
      else:
        i += 1
      continue
    # code
    if mode == 'code':
      if c == '#':
        mode = 'line'
        i += 1
        continue
      if s[i:i + 3] == '"""':
        mode = 'triple'
        i += 3
        continue
      if c == '"':
        mode = 'dq'
      elif c == "'":
        mode = 'sq'
      elif c == '`':
        mode = 'bt'
      elif s[i:i + 2] == '/*':
        mode = 'block'
        i += 2
        continue
      elif c in '([{':
        stack.append(c)
      elif c in ')]}':
        if stack and stack[-1] == {')': '(', ']': '[', '}': '{'}[c]:
          stack.pop()
        else:
          return 'unmatched'
    i += 1
  return 'ok'


def k_lexical_errors(s: str) -> bool:
  """
  pre: len(s) <= %(FREE)d
  post: _
  """
  want = spec_scan(s)
  try:
    parse.RemoveComments(s)
    got = 'ok'
  except parse.ParsingException as e:
    got = 'unmatched' if 'matches nothing' in str(e) else 'eol'
  return got == want
'''


def split_fn(i, free):
  name = 'k_split_rejoin_%d' % i
  return name, '''

def %s(s: str) -> bool:
  """
  pre: len(s) <= %d
  post: _
  """
  return split_rejoin(s, SEPS[%d])
''' % (name, free, i)


def span_fn(i, j):
  name = 'k_span_%d_%d' % (i, j)
  return name, '''

def %s(a: int, b: int, use_stop: bool) -> bool:
  """
  pre: 0 <= a <= 12 and -10 <= b <= 12
  post: _
  """
  return span_ok(%d, %d, a, b, use_stop)
''' % (name, i, j)


def source(thorough):
  p = dict(PRES=['', '(', 'P(', 'x == '] if not thorough else ['', '(', 'P(', '[a,', 'x == ', 'A(x) :- '],
           POSTS=['', ')', ', b', ';'] if not thorough else ['', ')', ', b', ';', ' | c', ']'],
           BODY=2, CLEN=1 if not thorough else 2, POSTLEN=1 if not thorough else 2,
           FREE=3 if not thorough else 4, FREE1=3)
  p['NPRE'] = len(p['PRES'])
  p['NPOST'] = len(p['POSTS'])
  src = HEAD % p + OPACITY % p + COMMENTS % p + LAYOUT % p + SPANS + LEXICAL % p
  names = ['k_opacity_dq', 'k_opacity_backtick', 'k_opacity_triple', 'k_opacity_sq',
           'k_block_comment_invisible', 'k_line_comment_invisible', 'k_no_comment_left',
           'k_strip_spaces', 'k_strip_parens', 'k_strip_spaces_safe', 'k_trailing_semicolon', 'k_span_index']
  for i in range(7):
    n, s = split_fn(i, 3 if not thorough else 4)
    names.append(n)
    src += s
  for (i, j) in [(0, 10), (2, 7), (3, 3), (5, 10)]:
    n, s = span_fn(i, j)
    names.append(n)
    src += s
  return src, names, ['k_lexical_errors']
