"""C17 — grounded predicates are materialised faithfully and re-running is idempotent."""
from . import pairrun

FUNCTIONS = [
    'compiler/universe.py: Annotations.Ground, Dataset, AttachedDatabases, AttachDatabaseStatements; SubqueryTranslator.TranslateTableAttachedToFile, TranslateTable, TranslateWithedTable; Logica.defines_and_exports',
    'logic of `logica.py <file> run <p>` for sqlite (preamble + defines_and_exports + main statement) replayed by lv/ground.py HistorySide on a real SQLite file',
]
ASSUMPTIONS = [
    'program shape from the seeded generator c17_pairs: grounded predicate defined by aggregation / join / two rules / a chain of non-injectable helpers / a filter; dependants reading it through a join, a filter, a negation, an aggregating expression, together with the shared helper (both body orders), or through a second grounded predicate; dataset logica_home or logica_test attached to a file',
    'histories of <=3 CLI-style runs (each run = fresh connection, same attached database), enumerated; the database file content is symbolic (<=2 rows per extensional table, integers)',
    'assertions (each a z3 equivalence over all databases within the bound): rows of the dependant == program without @Ground; table of P after the run == P compiled alone; printing P == P; printing P writes nothing (table unchanged, and structurally: its script has no DROP/CREATE on P\'s table); re-run rows and table == first run',
    'a script that SQLite rejects, or a grounded table that is missing after the dependant ran, is a violation',
    'trusted: lv/sqlsem.py statement interpreter (DROP/CREATE/ATTACH), z3; outside: overwrite: false, copy_to_file',
]


def run():
  return pairrun.run_pairs('C17', [('lv.gen_meta', 'c17_pairs', 40, 2400), ('lv.gen_meta', 'c17_dataset_pairs', 4, 40)], FUNCTIONS, ASSUMPTIONS,
                           'DESIGN.md §3 C17',
                           rejected_is_violation=lambda r: True)


def replay(path):
  return pairrun.replay_pair(path)
