"""CrossHair harness source for C20 / C07(b): the Python UDFs registered on SQLite."""

HEAD = r'''
import itertools
from common import sqlite3_logica as S


class FakeJson(object):
  """JSON boundary stubbed as identity on Python lists (CrossHair would realise symbolic
  values at the C boundary of json)."""
  @staticmethod
  def dumps(x, *a, **k):
    return x

  @staticmethod
  def loads(x, *a, **k):
    return x


S.json = FakeJson
S.LoadJson = lambda s: s
S.print = lambda *a, **k: None


def run_agg(cls, rows):
  a = cls()
  for r in rows:
    a.step(*r)
  return a.finalize()


def all_orders(items):
  return [list(p) for p in itertools.permutations(items)]


def distinct(vals):
  return len(set(vals)) == len(vals)
'''


def argbest(cls, n, k_fixed=None):
  """k-best: for every arrival order, the k smallest (ArgMin) / largest (ArgMax) arguments
  in value order; values pairwise distinct (ties are excepted by the property)."""
  name = 'k_%s_n%d%s' % (cls.lower(), n, '' if k_fixed is None else '_k%d' % k_fixed)
  args = ', '.join('v%d: int' % i for i in range(n))
  vals = ', '.join('v%d' % i for i in range(n))
  if k_fixed is None:
    sig = args + ', k: int'
    pre = '1 <= k <= %d' % (n + 1)
    kexpr = 'k'
  else:
    sig = args
    pre = 'True'
    kexpr = str(k_fixed)
  src = '''

def %(name)s(%(sig)s) -> bool:
  """
  pre: %(pre)s
  post: _
  """
  vals = [%(vals)s]
  if not distinct(vals):
    return True
  rows = [(100 + i, vals[i], %(kexpr)s) for i in range(%(n)d)]
  ordered = sorted(range(%(n)d), key=lambda i: vals[i]%(rev)s)
  expected = [100 + i for i in ordered][:%(kexpr)s]
  for order in all_orders(rows):
    if run_agg(S.%(cls)s, order) != expected:
      return False
  return True
''' % dict(name=name, sig=sig, pre=pre, vals=vals, kexpr=kexpr, n=n, cls=cls,
           rev=', reverse=True' if cls == 'ArgMax' else '')
  return name, src


def array_null_limit(n):
  """Array(a -> v) = ArgMin(v, a, null): all elements ordered by key, for every arrival order."""
  name = 'k_array_n%d' % n
  args = ', '.join('v%d: int' % i for i in range(n))
  vals = ', '.join('v%d' % i for i in range(n))
  src = '''

def %(name)s(%(args)s) -> bool:
  """
  post: _
  """
  vals = [%(vals)s]
  if not distinct(vals):
    return True
  rows = [(100 + i, vals[i], None) for i in range(%(n)d)]
  expected = [100 + i for i in sorted(range(%(n)d), key=lambda i: vals[i])]
  for order in all_orders(rows):
    if run_agg(S.ArgMin, order) != expected:
      return False
  return True
''' % dict(name=name, args=args, vals=vals, n=n)
  return name, src


LIMIT_RAISES = '''

def k_limit_must_be_positive(v0: int, k: int) -> bool:
  """
  pre: k <= 0
  post: _
  """
  for cls in (S.ArgMin, S.ArgMax):
    try:
      cls().step(1, v0, k)
      return False
    except Exception:
      pass
  return True
'''

OTHERS = '''

def k_array_concat_agg(a0: int, a1: int, b0: int, c0: int, c1: int, skip: bool) -> bool:
  """
  post: _
  """
  lists = [[a0, a1], [b0], [c0, c1]]
  for order in all_orders(lists):
    rows = [(l,) for l in order]
    if skip:
      rows.insert(1, (None,))
    got = run_agg(S.ArrayConcatAgg, rows)
    want = [x for l in order for x in l]
    if got != want:
      return False
    if sorted(got) != sorted([a0, a1, b0, c0, c1]):
      return False
  return True


def k_array_concat(a0: int, a1: int, b0: int) -> bool:
  """
  post: _
  """
  return (S.ArrayConcat([a0, a1], [b0]) == [a0, a1, b0] and S.ArrayConcat([], [b0]) == [b0]
          and S.ArrayConcat(None, [b0]) is None and S.ArrayConcat([a0], None) is None)


def k_sort_list(a: int, b: int, c: int, d: int) -> bool:
  """
  post: _
  """
  got = S.SortList([a, b, c, d])
  return (len(got) == 4 and all(got[i] <= got[i + 1] for i in range(3))
          and sorted(got) == sorted([a, b, c, d]) and S.SortList([]) == [])


def k_in_list(x: int, a: int, b: int, c: int) -> bool:
  """
  post: _
  """
  return (bool(S.InList(x, [a, b, c])) == (x == a or x == b or x == c)
          and not S.InList(x, []))


def k_distinct_list_agg_content(a: int, b: int, c: int, d: int) -> bool:
  """
  post: _
  """
  for order in all_orders([a, b, c, d]):
    got = run_agg(S.DistinctListAgg, [(x,) for x in order])
    if sorted(got) != sorted(set([a, b, c, d])):
      return False
  return True


def k_join(a: str, b: str, sep: str) -> bool:
  """
  pre: len(sep) <= 2 and len(a) <= 2 and len(b) <= 2
  post: _
  """
  return S.Join([a, b], sep) == a + sep + b and S.Join([], sep) == '' and S.Join([a], sep) == a
'''

# order independence of Set: CrossHair models sets in insertion order, so a counterexample
# here is only a *candidate*; lv/z3k/pyset.py searches for inputs that reproduce on CPython.
SET_ORDER = '''

def k_distinct_list_agg_order(a: int, b: int) -> bool:
  """
  pre: a != b
  post: _
  """
  return run_agg(S.DistinctListAgg, [(a,), (b,)]) == run_agg(S.DistinctListAgg, [(b,), (a,)])
'''


# ---- UDF calls must not interfere with each other (state shared between calls / rows / queries)
# Note: CrossHair neutralises functools.lru_cache inside traced code (a first version of this kernel
# came back "Confirmed" on a tree where a memoised LoadJson + an in-place sort did interfere); the
# choices are therefore branched on first and the calls run natively, with the real json module.
SEQ_HEAD = r'''
import itertools
from common import sqlite3_logica as S

PERMS = [list(p) for p in itertools.permutations([3, 1, 2])] + [list(p) for p in itertools.permutations(['q', 'p', 'r'])]
UDF_NAMES = ['sort', 'join', 'concat_self', 'in_list', 'concat_item']


def apply_udf(which, x, item):
  import json
  if which == 0:
    return S.SortList(x)
  if which == 1:
    return S.Join(x, '-')
  if which == 2:
    return S.ArrayConcat(x, x)
  if which == 3:
    return S.InList(item, x)
  return S.ArrayConcat(x, json.dumps([item]))


def interfere_ok(p, f, g):
  # the same list text is seen by UDF g, then by UDF f, then by g again (same row, a later row or
  # a later query of the process): g must answer as before
  import json
  x = json.dumps(PERMS[p])
  first = apply_udf(g, x, PERMS[p][0])
  apply_udf(f, x, PERMS[p][1])
  again = apply_udf(g, x, PERMS[p][0])
  return first == again


def k_udf_calls_do_not_interfere(perm: int, f: int, g: int) -> bool:
  """
  pre: 0 <= perm < 12 and 0 <= f < 5 and 0 <= g < 5
  post: _
  """
  p = concretise(perm, 12)
  ff = concretise(f, 5)
  gg = concretise(g, 5)
  with untraced():
    return interfere_ok(p, ff, gg)
'''


def seq_source():
  from .. import variants
  return variants.UNTRACED + SEQ_HEAD, ['k_udf_calls_do_not_interfere']
