"""Variant catalogues for the program-shape clauses of C19: (program, predicate, must be rejected)."""

E = '@Engine("sqlite");\n'


def range_restriction():
  v = []
  # head variable
  for h in ('x', 'y', 'z'):
    v.append((E + 'P(x, %s) :- T(x, y);\n' % h, 'P', h == 'z'))
  # comparison variable
  for c in ('x', 'y', 'z'):
    v.append((E + 'P(x) :- T(x, y), y < %s;\n' % c, 'P', c == 'z'))
  # variable under a negated comparison
  for c in ('x', 'z'):
    v.append((E + 'P(x) :- T(x, y), ~(y < %s);\n' % c, 'P', c == 'z'))
  # bound by assignment / by `in`
  for h in ('z', 'w'):
    v.append((E + 'P(x, %s) :- T(x, y), z == y + 1;\n' % h, 'P', h == 'w'))
    v.append((E + 'P(x, %s) :- T(x, y), z in [x, y];\n' % h, 'P', h == 'w'))
  # expression in the head over an unbound variable
  for h in ('y', 'z'):
    v.append((E + 'P(x, %s + 1) :- T(x, y);\n' % h, 'P', h == 'z'))
  return v


def injected_capture():
  """an inlined single-rule predicate with an unbound comparison variable; the caller may bind
  a variable of the same name (it must not be captured)"""
  v = []
  for a in ('z', 'y'):
    for b in ('z', 'w'):
      v.append((E + 'Small(x) :- T(x, y), y < %s;\nQ(x, %s) :- Small(x), T(x, %s);\n' % (a, b, b), 'Q', a == 'z'))
      v.append((E + 'Small(x) :- T(x, y), y < %s;\nQ(x, %s) :- T(x, %s), Small(x);\n' % (a, b, b), 'Q', a == 'z'))
  # the unbound variable sits in the value expression of an injected functional predicate
  for a in ('z', 'y'):
    for b in ('z', 'w'):
      v.append((E + 'F(x) = y + %s :- T(x, y);\nQ(x, %s, v) :- T(x, %s), v == F(x);\n' % (a, b, b), 'Q', a == 'z'))
  return v


def functor_arguments():
  base = E + 'A(x) :- T(x, y);\nB(x) :- U(x);\nD(x) :- W(x);\nMid(x) :- A(x), U(x);\nFn(x) :- Mid(x), B(x);\nOther(x) :- W(x), x > 0;\n'
  v = []
  args = {'A': True, 'B': True, 'D': False, 'Zzz': False, 'Mid': True}
  import itertools
  names = sorted(args)
  for n in (1, 2):
    for combo in itertools.combinations(names, n):
      bad = any(not args[c] for c in combo)
      v.append((base + 'N := Fn(%s);\n' % ', '.join('%s: Other' % c for c in combo), 'N', bad))
  # the made predicate no longer depends on an argument that was replaced
  v.append((base + 'G1 := Fn(A: Other);\nN := G1(B: Other);\n', 'N', False))
  v.append((base + 'G1 := Fn(A: Other);\nN := G1(A: Other);\n', 'N', True))
  v.append((base + 'G1 := Fn(A: Other);\nN := G1(B: Other, A: Other);\n', 'N', True))
  return v


def recursion_base():
  # depth 1 keeps the unfolding small; the missing base case shows at every depth
  v = []
  d = '@Recursive(R, 1);\n'
  v.append((E + d + 'R(x) :- R(x);\n', 'R', True))
  v.append((E + d + 'R(x) :- R(y), T(y, x);\n', 'R', True))
  v.append((E + d + 'R(x) :- T(x, y);\nR(x) :- R(y), T(y, x);\n', 'R', False))
  v.append((E + d + 'R(x) :- S(x);\nS(x) :- R(x);\n', 'R', True))
  v.append((E + d + 'R(x) :- S(x);\nS(x) :- R(x);\nS(x) :- T(x, y);\n', 'R', False))
  v.append((E + d + 'R(x) distinct :- R(y), T(y, x);\n', 'R', True))
  return v


def annotation_targets():
  v = []
  base = E + 'P(x, y) :- T(x, y);\nQ(x) :- P(x, y);\n'
  # the annotation kinds CheckAnnotatedObjects validates; @Ground of an undefined name declares an
  # existing table by design and @Recursive of an undefined name is ignored: neither is claimed
  for ann, arg in (('@OrderBy(%s, "col0");', None), ('@Limit(%s, 1);', None),
                   ('@NoInject(%s);', None), ('@With(%s);', None), ('@NoWith(%s);', None)):
    for target in ('P', 'Missing'):
      v.append((base + ann % target + '\n', 'Q', target == 'Missing'))
  # @OrderBy / @Limit / @NoInject take positional arguments only
  for ann in ('@OrderBy(P, "col0", desc: true);', '@Limit(P, 2, offset: 1);', '@OrderBy(P, column: "col0");',
              '@NoInject(P, always: true);'):
    v.append((base + ann + '\n', 'Q', True))
  v.append((base + '@OrderBy(P, "col0", "col1 desc");\n@Limit(P, 2);\n', 'Q', False))
  # the annotated name exists in ANOTHER program of this catalogue (compiled earlier in the same
  # process by the harness warm-up): the check must not remember it
  v.append((E + 'Ranked(x, y) :- T(x, y);\nTop(x) :- Ranked(x, y);\n@OrderBy(Ranked, "col0");\n', 'Top', False))
  v.append((E + 'Ranker(x, y) :- T(x, y);\nTop(x) :- Ranker(x, y);\n@OrderBy(Ranked, "col0");\n', 'Top', True))
  v.append((E + 'Ranker(x, y) :- T(x, y);\nTop(x) :- Ranker(x, y);\n@Limit(Ranked, 1);\n', 'Top', True))
  return v


def aggregation_coherence():
  v = []
  for named_agg in (False, True):
    for distinct in (False, True):
      for value_agg in (False, True):
        fields = ['x', 'a? += y' if named_agg else 'a: y']
        head = 'P(%s)' % ', '.join(fields)
        if value_agg:
          head += ' Min= y'
        if distinct:
          head += ' distinct'
        v.append((E + head + ' :- T(x, y);\n', 'P', named_agg and not distinct and not value_agg))
  for d1 in (False, True):
    for d2 in (False, True):
      v.append((E + 'Q(x) %s:- T(x, y);\nQ(y) %s:- U(x, y);\n' % ('distinct ' if d1 else '', 'distinct ' if d2 else ''),
                'Q', d1 != d2))
  return v


def head_text():
  """text left over in a rule head after its call (a stray word, a dropped `;` before the rule), with
  and without the `distinct` keyword (added after seeded change C19-r7)"""
  v = []
  for distinct in ('', ' distinct'):
    for junk in ('', ' junk', ' 5', ' Q(x)'):
      v.append((E + 'P(x)%s%s :- T(x, y);\n' % (junk, distinct), 'P', bool(junk)))
    # a dropped semicolon glues a fact to the next rule
    v.append((E + 'Q(1)\nP(x)%s :- T(x, y);\n' % distinct, 'P', True))
    v.append((E + 'Q(1);\nP(x)%s :- T(x, y);\n' % distinct, 'P', False))
  return v


GROUPS = [('head_text', head_text), ('range_restriction', range_restriction), ('injected_capture', injected_capture),
          ('functor_arguments', functor_arguments), ('recursion_base', recursion_base),
          ('annotation_targets', annotation_targets), ('aggregation_coherence', aggregation_coherence)]
