"""Symbolic extensional database D(K) and its concrete counterpart on real SQLite."""
import z3
from . import vals as V
from .vals import S, Rel

SCHEMA = {
    'E': ['col0', 'col1'],
    'F': ['col0', 'col1'],
    'G': ['col0'],
    'W': ['col0', 'col1', 'col2'],
    'H': ['a', 'b'],
}
LO, HI = -(2 ** 20), 2 ** 20


class SymDB:
  def __init__(self, tables, K, nullable=(), uid=''):
    """tables: iterable of names from SCHEMA (or dict name -> cols); K: int or dict
    table -> int; nullable: set of (table, col) whose cells may be NULL."""
    self.tables = {}
    self.constraints = []
    self.K = {}
    self.nullable = set(nullable)
    if not isinstance(tables, dict):
      tables = {t: SCHEMA[t] for t in tables}
    self.schema = tables
    for t, cols in sorted(tables.items()):
      k = K[t] if isinstance(K, dict) else K
      self.K[t] = k
      slots = []
      for i in range(k):
        p = z3.Bool('%s%s_p%d' % (uid, t, i))
        cells = []
        for c in cols:
          x = z3.Int('%s%s_%d_%s' % (uid, t, i, c))
          self.constraints.append(z3.And(x >= LO, x <= HI))
          if (t, c) in self.nullable:
            n = z3.Bool('%s%s_%d_%s_null' % (uid, t, i, c))
          else:
            n = False
          cells.append((x, n))
        slots.append((p, cells))
      self.tables[t] = slots
      # symmetry breaking: present slots first
      for i in range(1, k):
        self.constraints.append(z3.Implies(slots[i][0], slots[i - 1][0]))

  def store(self):
    out = {}
    for t, slots in self.tables.items():
      out[t] = Rel(self.schema[t], [(p, [S(x, 'int', n) for x, n in cells]) for p, cells in slots])
    return out

  def fix(self, rows):
    """constraints pinning the database to concrete rows {table: [tuple,...]}."""
    cs = []
    for t, slots in self.tables.items():
      rs = rows.get(t, [])
      assert len(rs) <= len(slots), 'too many rows for K'
      for i, (p, cells) in enumerate(slots):
        if i < len(rs):
          cs.append(p)
          for (x, n), v in zip(cells, rs[i]):
            if v is None:
              assert n is not False
              cs.append(n)
            else:
              cs.append(x == v)
              if n is not False:
                cs.append(z3.Not(n))
        else:
          cs.append(z3.Not(p))
    return cs

  def rows_of(self, model):
    out = {}
    for t, slots in self.tables.items():
      rs = []
      for p, cells in slots:
        if z3.is_true(model.eval(p, model_completion=True)):
          r = []
          for x, n in cells:
            if n is not False and z3.is_true(model.eval(n, model_completion=True)):
              r.append(None)
            else:
              r.append(model.eval(x, model_completion=True).as_long())
          rs.append(tuple(r))
      out[t] = rs
    return out


def load_sqlite(con, schema, rows, attach_prefix=''):
  cur = con.cursor()
  for t, cols in schema.items():
    cur.execute('DROP TABLE IF EXISTS %s%s' % (attach_prefix, t))
    cur.execute('CREATE TABLE %s%s (%s)' % (attach_prefix, t, ', '.join('%s INTEGER' % c for c in cols)))
    for r in rows.get(t, []):
      cur.execute('INSERT INTO %s%s VALUES (%s)' % (attach_prefix, t, ','.join('?' * len(cols))), r)
  con.commit()
