"""Parser for the subset of SQLite SQL that the Logica compiler emits.

Anything outside the subset raises Unsupported (the program is then 'not encodable',
never an alarm).  AST nodes are plain tuples/dicts.
"""
import re
from .vals import Unsupported

RANGE_RE = re.compile(
    r"\(select json_group_array\(n\) from \(with recursive t as"
    r"\(select 0 as n union all "
    r"select n \+ 1 as n from t where n \+ 1 < ")

KEYWORDS = {
    'SELECT', 'FROM', 'WHERE', 'GROUP', 'BY', 'AS', 'AND', 'OR', 'NOT', 'IS', 'NULL',
    'UNION', 'ALL', 'WITH', 'ORDER', 'LIMIT', 'CASE', 'WHEN', 'THEN', 'ELSE', 'END',
    'DISTINCT', 'DROP', 'TABLE', 'IF', 'EXISTS', 'CREATE', 'ATTACH', 'DATABASE', 'DESC',
    'ASC', 'IN', 'CAST', 'TRUE', 'FALSE', 'RECURSIVE',
}

TOKEN_RE = re.compile(r"""
   (?P<ws>\s+)
 | (?P<comment>--[^\n]*)
 | (?P<ccomment>/\*.*?\*/)
 | (?P<num>\d+\.\d+|\d+)
 | (?P<str>'(?:[^']|'')*')
 | (?P<dstr>"(?:[^"]|"")*")
 | (?P<bq>`[^`]*`)
 | (?P<name>[A-Za-z_][A-Za-z_0-9]*)
 | (?P<op>\|\||<=|>=|!=|<>|==|[-+*/%(),.;=<>])
""", re.X | re.S)


def replace_range(sql):
  """Rewrite the SQLite Range template to LOGICA_RANGE(arg)."""
  while True:
    m = RANGE_RE.search(sql)
    if not m:
      return sql
    # argument runs up to the matching ") select n from t) where n < ARG)"
    start = m.end()
    # find ') select n from t) where n < '
    mid = sql.find(') select n from t) where n < ', start)
    if mid < 0:
      raise Unsupported('range template shape')
    arg = sql[start:mid]
    rest = mid + len(') select n from t) where n < ')
    if sql[rest:rest + len(arg)] != arg or sql[rest + len(arg)] != ')':
      raise Unsupported('range template shape (second arg)')
    sql = sql[:m.start()] + 'LOGICA_RANGE(' + arg + ')' + sql[rest + len(arg) + 1:]


def tokenize(sql):
  toks = []
  pos = 0
  while pos < len(sql):
    m = TOKEN_RE.match(sql, pos)
    if not m:
      raise Unsupported('cannot tokenize at %r' % sql[pos:pos + 30])
    pos = m.end()
    k = m.lastgroup
    t = m.group(k)
    if k in ('ws', 'comment'):
      continue
    if k == 'ccomment':
      if t.strip() == '/* nil */':
        toks.append(('nil', t))
      continue
    if k == 'name':
      if t.upper() in KEYWORDS:
        toks.append(('kw', t.upper()))
      else:
        toks.append(('name', t))
    elif k == 'str':
      toks.append(('str', t[1:-1].replace("''", "'")))
    elif k == 'dstr':
      toks.append(('str', t[1:-1].replace('""', '"')))
    elif k == 'bq':
      toks.append(('name', t[1:-1]))
    elif k == 'num':
      if '.' in t:
        raise Unsupported('float literal')
      toks.append(('num', int(t)))
    else:
      toks.append(('op', t))
  toks.append(('eof', None))
  return toks


class Parser:
  def __init__(self, sql):
    self.toks = tokenize(sql)
    self.i = 0

  # -- helpers
  def peek(self, k=0):
    return self.toks[min(self.i + k, len(self.toks) - 1)]

  def at(self, kind, val=None, k=0):
    t = self.peek(k)
    return t[0] == kind and (val is None or t[1] == val)

  def at_kw(self, *kws):
    for j, kw in enumerate(kws):
      if not self.at('kw', kw, j):
        return False
    return True

  def eat(self, kind, val=None):
    t = self.peek()
    if t[0] != kind or (val is not None and t[1] != val):
      raise Unsupported('expected %s %s, got %r at token %d' % (kind, val, t, self.i))
    self.i += 1
    return t[1]

  def eat_kw(self, *kws):
    for kw in kws:
      self.eat('kw', kw)

  def try_eat(self, kind, val=None):
    if self.at(kind, val):
      self.i += 1
      return True
    return False

  # -- script
  def script(self):
    stmts = []
    while not self.at('eof'):
      if self.try_eat('op', ';'):
        continue
      stmts.append(self.statement())
    return stmts

  def dotted(self):
    n = self.eat('name')
    while self.try_eat('op', '.'):
      n += '.' + self.eat('name')
    return n

  def statement(self):
    if self.at_kw('DROP'):
      self.eat_kw('DROP', 'TABLE', 'IF', 'EXISTS')
      return ('drop', self.dotted())
    if self.at_kw('CREATE'):
      self.eat_kw('CREATE', 'TABLE')
      if self.at_kw('IF'):
        self.eat_kw('IF', 'NOT', 'EXISTS')
        raise Unsupported('CREATE TABLE IF NOT EXISTS')
      name = self.dotted()
      self.eat_kw('AS')
      return ('create', name, self.select())
    if self.at_kw('ATTACH'):
      self.eat_kw('ATTACH', 'DATABASE')
      f = self.eat('str')
      self.eat_kw('AS')
      return ('attach', f, self.eat('name'))
    return ('select', self.select())

  # -- select
  def select(self):
    withs = []
    recursive = False
    if self.at_kw('WITH'):
      self.eat_kw('WITH')
      if self.try_eat('kw', 'RECURSIVE'):
        recursive = True
      while True:
        name = self.eat('name')
        self.eat_kw('AS')
        self.eat('op', '(')
        q = self.select()
        self.eat('op', ')')
        withs.append((name, q))
        if not self.try_eat('op', ','):
          break
    core = self.select_core()
    if self.at_kw('UNION'):
      parts = [{'with': [], 'core': core, 'order': None, 'limit': None, 'recursive': False}]
      while self.at_kw('UNION'):
        self.eat_kw('UNION', 'ALL')
        parts.append({'with': [], 'core': self.select_core(), 'order': None, 'limit': None,
                      'recursive': False})
      core = ('union', parts)
    order = None
    limit = None
    if self.at_kw('ORDER'):
      self.eat_kw('ORDER', 'BY')
      order = []
      while True:
        e = self.expr()
        desc = False
        if self.try_eat('kw', 'DESC'):
          desc = True
        elif self.try_eat('kw', 'ASC'):
          pass
        order.append((e, desc))
        if not self.try_eat('op', ','):
          break
    if self.at_kw('LIMIT'):
      self.eat_kw('LIMIT')
      limit = self.eat('num')
    return {'with': withs, 'core': core, 'order': order, 'limit': limit, 'recursive': recursive}

  def select_core(self):
    if self.at('nil'):
      raise Unsupported('nil select')
    self.eat_kw('SELECT')
    if self.at('op', '*'):
      self.eat('op', '*')
      self.eat_kw('FROM')
      self.eat('op', '(')
      parts = []
      while True:
        if self.at('nil'):
          self.i += 1
          parts.append(None)
        else:
          parts.append(self.select())
        if self.at_kw('UNION'):
          self.eat_kw('UNION', 'ALL')
          continue
        break
      self.eat('op', ')')
      self.eat_kw('AS')
      self.eat('name')
      return ('union', parts)
    distinct = False
    if self.try_eat('kw', 'DISTINCT'):
      distinct = True
    items = []
    while True:
      e = self.expr()
      name = None
      if self.try_eat('kw', 'AS'):
        name = self.eat('name')
      items.append((e, name))
      if not self.try_eat('op', ','):
        break
    frm = []
    if self.try_eat('kw', 'FROM'):
      while True:
        frm.append(self.from_item())
        if not self.try_eat('op', ','):
          break
    where = None
    if self.try_eat('kw', 'WHERE'):
      where = self.expr()
    group = None
    if self.at_kw('GROUP'):
      self.eat_kw('GROUP', 'BY')
      group = []
      while True:
        group.append(self.expr())
        if not self.try_eat('op', ','):
          break
    return ('select', {'items': items, 'from': frm, 'where': where, 'group': group,
                       'distinct': distinct})

  def from_item(self):
    if self.at('op', '('):
      self.eat('op', '(')
      q = self.select()
      self.eat('op', ')')
      if self.try_eat('kw', 'AS'):
        return ('sub', q, self.eat('name'))
      return ('sub', q, '__anon%d' % self.i)
    if self.at('name') and self.peek()[1].upper() == 'JSON_EACH' and self.at('op', '(', 1):
      self.eat('name')
      self.eat('op', '(')
      e = self.expr()
      self.eat('op', ')')
      self.eat_kw('AS')
      return ('each', e, self.eat('name'))
    name = self.dotted()
    alias = name.split('.')[-1]
    if self.try_eat('kw', 'AS'):
      alias = self.eat('name')
    return ('table', name, alias)

  # -- expressions
  def expr(self):
    return self.p_or()

  def p_or(self):
    l = self.p_and()
    while self.try_eat('kw', 'OR'):
      l = ('or', l, self.p_and())
    return l

  def p_and(self):
    l = self.p_not()
    while self.try_eat('kw', 'AND'):
      l = ('and', l, self.p_not())
    return l

  def p_not(self):
    if self.try_eat('kw', 'NOT'):
      return ('not', self.p_not())
    return self.p_cmp()

  def p_cmp(self):
    l = self.p_concat()
    while True:
      if self.at('op') and self.peek()[1] in ('=', '==', '!=', '<>', '<', '<=', '>', '>='):
        op = self.eat('op')
        l = ('cmp', op, l, self.p_concat())
      elif self.at_kw('IS'):
        self.eat_kw('IS')
        neg = self.try_eat('kw', 'NOT')
        self.eat_kw('NULL')
        l = ('isnull', l)
        if neg:
          l = ('not', l)
      elif self.at_kw('IN'):
        raise Unsupported('SQL IN')
      else:
        return l

  def p_concat(self):
    l = self.p_add()
    while self.try_eat('op', '||'):
      l = ('concat', l, self.p_add())
    return l

  def p_add(self):
    l = self.p_mul()
    while self.at('op') and self.peek()[1] in ('+', '-'):
      op = self.eat('op')
      l = ('arith', op, l, self.p_mul())
    return l

  def p_mul(self):
    l = self.p_unary()
    while self.at('op') and self.peek()[1] in ('*', '/', '%'):
      op = self.eat('op')
      l = ('arith', op, l, self.p_unary())
    return l

  def p_unary(self):
    if self.try_eat('op', '-'):
      e = self.p_unary()
      if e[0] == 'num':
        return ('num', -e[1])
      return ('arith', '-', ('num', 0), e)
    return self.p_primary()

  def p_primary(self):
    t = self.peek()
    if t[0] == 'num':
      self.i += 1
      return ('num', t[1])
    if t[0] == 'str':
      self.i += 1
      return ('str', t[1])
    if t[0] == 'kw' and t[1] == 'NULL':
      self.i += 1
      return ('null',)
    if t[0] == 'kw' and t[1] in ('TRUE', 'FALSE'):
      self.i += 1
      return ('num', 1 if t[1] == 'TRUE' else 0)
    if t[0] == 'kw' and t[1] == 'CASE':
      self.i += 1
      whens = []
      while self.try_eat('kw', 'WHEN'):
        c = self.expr()
        self.eat_kw('THEN')
        whens.append((c, self.expr()))
      els = None
      if self.try_eat('kw', 'ELSE'):
        els = self.expr()
      self.eat_kw('END')
      return ('case', whens, els)
    if t[0] == 'kw' and t[1] == 'CAST':
      raise Unsupported('CAST')
    if t[0] == 'op' and t[1] == '(':
      self.i += 1
      if self.at_kw('SELECT') or self.at_kw('WITH'):
        q = self.select()
        self.eat('op', ')')
        return ('subquery', q)
      e = self.expr()
      self.eat('op', ')')
      return e
    if t[0] == 'name':
      self.i += 1
      name = t[1]
      if self.at('op', '('):
        self.i += 1
        distinct = self.try_eat('kw', 'DISTINCT')
        args = []
        if not self.at('op', ')'):
          while True:
            args.append(self.expr())
            if not self.try_eat('op', ','):
              break
        self.eat('op', ')')
        return ('call', name, args, distinct)
      if self.at('op', '.'):
        self.i += 1
        col = self.eat('name')
        return ('col', name, col)
      return ('name', name)
    raise Unsupported('unexpected token %r' % (t,))


def parse_script(sql):
  p = Parser(sql)
  s = p.script()
  return s


def parse_select(sql):
  p = Parser(sql)
  q = p.select()
  p.try_eat('op', ';')
  if not p.at('eof'):
    raise Unsupported('trailing tokens after select: %r' % (p.peek(),))
  return q
