"""Pair generators for the metamorphic properties."""
import copy
import random
from .lang import *  # noqa: F401,F403
from . import gen, lang
from .meta import Side


# ---------------------------------------------------------------- AST transforms

def map_props(n, fn):
  """apply fn bottom-up to every node"""
  if isinstance(n, Node):
    n = mapn(n, lambda c: map_props(c, fn))
    return fn(n)
  return n


def map_rule(r, fn):
  def m(v):
    if v is None:
      return None
    return map_props(v, fn)
  return Rule(r.pred, [m(a) for a in r.args], [(k, m(v)) for k, v in r.nargs], m(r.value),
              r.distinct, m(r.body), r.value_style)


def permute_conjuncts(prog, rnd):
  def fn(n):
    if isinstance(n, Conj) and len(n.items) > 1:
      items = list(n.items)
      rnd.shuffle(items)
      return Conj(items)
    return n
  return Program([map_rule(r, fn) for r in prog.rules], prog.annotations, prog.ext, prog.engine_line)


def permute_disjuncts(prog, rnd):
  def fn(n):
    if isinstance(n, Disj) and len(n.items) > 1:
      items = list(n.items)
      rnd.shuffle(items)
      return Disj(items)
    return n
  return Program([map_rule(r, fn) for r in prog.rules], prog.annotations, prog.ext, prog.engine_line)


def permute_rules(prog, rnd):
  rules = list(prog.rules)
  rnd.shuffle(rules)
  return Program(rules, prog.annotations, prog.ext, prog.engine_line)


NAME_POOLS = [
    ['zz', 'yy', 'xx', 'ww', 'vv', 'uu', 'tt', 'ss', 'rr', 'qq', 'pp', 'oo', 'nn'],       # reversed order
    ['col0', 'col1', 'col2', 'value', 'arg', 'xx_0', 't_1', 't_0', 'n', 'logica', 'e', 'f', 'g'],  # look like generated names
    ['a1', 'b', 'c', 'd', 'k2', 'aa', 'ab', 'ba', 'x1', 'x2', 'x10', 'x11', 'x12'],
]


def rename_variables(prog, rnd):
  rules = []
  for r in prog.rules:
    vs = rule_vars(r)
    pool = list(rnd.choice(NAME_POOLS))
    if rnd.random() < 0.5:
      rnd.shuffle(pool)
    keep = set()
    # a variable that doubles as a named-argument shorthand `a:` may be renamed: the
    # renderer expands the shorthand
    m = {}
    for v in vs:
      if v.startswith('call_'):
        continue
      while pool and (pool[0] in vs or pool[0] in m.values()):
        pool.pop(0)
      if not pool:
        break
      m[v] = pool.pop(0)
    rules.append(rename_rule_vars(r, m))
  return Program(rules, prog.annotations, prog.ext, prog.engine_line)


def rename_combine_locals(prog, rnd):
  """alpha-renaming: the variables that are local to ONE aggregating expression (they occur
  nowhere else in the rule) get fresh names; siblings keep theirs."""
  rules = []
  counter = [0]
  for r in prog.rules:
    aggs = []

    def collect(n):
      if isinstance(n, AggE):
        aggs.append(n)
      if isinstance(n, Node):
        for c in children(n):
          collect(c)
    for part in list(r.args) + [v for _, v in r.nargs if v is not None] + [r.value, r.body]:
      if part is not None:
        collect(part)
    if not aggs:
      rules.append(r)
      continue
    def has_inner(n):
      return any(isinstance(c, AggE) or has_inner(c) for c in children(n) if isinstance(c, Node))
    leaves = [a for a in aggs if not has_inner(a)]
    target = rnd.choice(leaves or aggs)     # an innermost one: its siblings keep their names
    inside = variables(target)

    def plain(n, acc):
      # variables of n that are not inside a nested aggregating expression / negation
      if isinstance(n, (AggE, Neg)):
        return
      if isinstance(n, Var):
        acc.add(n.name)
      if isinstance(n, Node):
        for c in children(n):
          plain(c, acc)

    def visible_above(n, vis):
      """-> set of variables visible in the scope that directly contains `target`, or None"""
      if n is target:
        return vis
      if isinstance(n, (AggE, Neg)):
        inner = set(vis)
        for c in children(n):
          plain(c, inner)
        for c in children(n):
          r_ = visible_above(c, inner)
          if r_ is not None:
            return r_
        return None
      if isinstance(n, Node):
        for c in children(n):
          r_ = visible_above(c, vis)
          if r_ is not None:
            return r_
      return None
    top = set()
    parts = list(r.args) + [v for _, v in r.nargs if v is not None] + [r.value, r.body]
    for part in parts:
      if part is not None:
        plain(part, top)
    for k, v in r.nargs:
      if v is None:
        top.add(k)
    outside = None
    for part in parts:
      if part is not None and outside is None:
        outside = visible_above(part, top)
    outside = outside if outside is not None else top
    local = [v for v in inside if v not in outside]
    if not local:
      rules.append(r)
      continue
    m = {}
    for v in local:
      counter[0] += 1
      m[v] = 'loc%d%s' % (counter[0], rnd.choice(['', 'a', 'z']))

    def fn(n):
      if n is target:
        return rename_vars(n, m)
      if isinstance(n, Node):
        return mapn(n, fn)
      return n

    def ap(v):
      return None if v is None else fn(v)
    rules.append(Rule(r.pred, [ap(a) for a in r.args], [(k, ap(v)) for k, v in r.nargs], ap(r.value),
                      r.distinct, ap(r.body), r.value_style))
  return Program(rules, prog.annotations, prog.ext, prog.engine_line)


def rename_predicates(prog, rnd, macros=()):
  names = ['Zeta', 'Alpha', 'Mu', 'Beta', 'Omega', 'Aa', 'Zz', 'T0', 'A_b']
  rnd.shuffle(names)
  m = {}
  for p in prog.preds():
    m[p] = names.pop(0)
  rules = [rename_rule_preds(r, m) for r in prog.rules]
  anns = []
  for a in prog.annotations:
    for k, v in m.items():
      a = a.replace('(%s,' % k, '(%s,' % v).replace('(%s)' % k, '(%s)' % v)
    anns.append(a)
  return Program(rules, anns, prog.ext, prog.engine_line), m


def base_case(seed, families=('core', 'agg', 'rec', 'layered', 'sugarbase')):
  fam = families[seed % len(families)]
  return getattr(gen, fam + '_case')(seed // len(families))


# ---------------------------------------------------------------- C07(a)

def c07_functor_pairs(seed):
  """renaming the made predicates (which changes the alphabetical order in which := lines are
  executed) and permuting the := lines must not change any made predicate."""
  import re
  rnd = random.Random(seed ^ 0x7c04)
  base, fun_text, hand_prog, made, notes = c04_case(seed)
  names = list(made)
  pool = ['Aaa', 'Zzz', 'Mmm', 'Bb1', 'Yy9', 'Kk']
  rnd.shuffle(pool)
  ren = {n: pool[i] for i, n in enumerate(names)}
  text2 = fun_text
  for n, m in ren.items():
    text2 = re.sub(r'\b%s\b' % re.escape(n), m, text2)
  lines = text2.strip().split('\n')
  make_lines = [l for l in lines if ':=' in l]
  other = [l for l in lines if ':=' not in l]
  rnd.shuffle(make_lines)
  text2 = '\n'.join(other + make_lines) + '\n'
  pairs = []
  for n in names:
    pairs.append(dict(a=Side(fun_text, n, label='original'), b=Side(text2, ren[n], label='made predicates renamed'),
                      tables=['E', 'F', 'G'], K=2, strings_list=[], label='functor rename %s %s' % (n, notes)))
  return pairs


def c07_named_rotation_pairs(seed):
  """rules of one predicate listing three named arguments in rotated orders, with the rules permuted"""
  rnd = random.Random(seed ^ 0x7a07)
  A = gen.A
  x, y = Var('x'), Var('y')
  names = ['a', 'b', 'c']
  exprs = {'a': x, 'b': y, 'c': rnd.choice([Bin('+', x, y), Bin('-', x, y), Num(7)])}
  bodies = [A('E', x, y), A('F', x, y), Conj([A('E', y, x), A('G', x)])]
  rules = []
  for i in range(rnd.choice([2, 3])):
    k = (i * (1 + seed % 2)) % 3
    order = names[k:] + names[:k]
    rules.append(Rule('P', [], [(n, exprs[n]) for n in order], body=bodies[i]))
  rules.append(Rule('Q', [x, y], body=Conj([Atom('P', [], [('a', x), ('c', y)]), Cmp('!=', x, y)])))
  prog = Program(rules, [], gen.EXT)
  prog2 = Program(list(reversed(rules[:-1])) + rules[-1:], [], gen.EXT)
  tables = sorted({t for t in ('E', 'F', 'G') if (t + '(') in prog.text()})
  return [dict(a=Side(prog.text(), p, label='original'), b=Side(prog2.text(), p, label='rules'),
               tables=tables, K=2, strings_list=[], label='named_rotation/%s/rules' % p) for p in ('P', 'Q')]


def c07_dnf_pairs(seed):
  """a parenthesised disjunction at different positions of a conjunction (first, middle, last), flat and
  nested: the disjunctive normal form must not depend on where it stands"""
  rnd = random.Random(seed ^ 0xd07)
  A = gen.A
  x, y, z = Var('x'), Var('y'), Var('z')
  d1 = Disj([Cmp('==', x, Num(rnd.choice([0, 1, 2]))), Cmp('>', x, Num(rnd.choice([2, 3]))), A('F', x, x)][:rnd.choice([2, 3])])
  if seed % 2:
    d1 = Disj([Conj([A('F', x, z), Disj([Cmp('<', z, Num(1)), A('G', z)])]), Cmp('==', x, Num(2))])
  others = [A('E', x, y), A('G', y), Cmp('!=', x, y)][:rnd.choice([2, 3])]
  orders = [[d1] + others, others + [d1], others[:1] + [d1] + others[1:]]
  progs = [Program([Rule('P', [x, y], body=Conj(o))], [], gen.EXT) for o in orders]
  tables = sorted({t for t in ('E', 'F', 'G') if (t + '(') in progs[0].text()})
  return [dict(a=Side(progs[0].text(), 'P', label='disjunction first'), b=Side(pb.text(), 'P', label='conjuncts'),
               tables=tables, K=2, strings_list=[], label='dnf_position/%d/conjuncts' % i) for i, pb in enumerate(progs[1:])]


def c07_pairs(seed):
  rnd = random.Random(seed ^ 0xc07)
  case = base_case(seed)
  prog = case.prog
  kinds = ['rules', 'conjuncts', 'disjuncts', 'vars', 'preds', 'vars', 'conjuncts', 'all', 'combine_locals']
  kind = kinds[(seed // 5) % len(kinds)]      # family = seed % 5: every (family, kind) within 45 seeds
  if kind == 'combine_locals' and case.family not in ('agg', 'sugarbase', 'layered'):
    kind = 'vars'
  m = {}
  if kind == 'rules':
    prog2 = permute_rules(prog, rnd)
  elif kind == 'conjuncts':
    prog2 = permute_conjuncts(prog, rnd)
  elif kind == 'disjuncts':
    prog2 = permute_disjuncts(prog, rnd)
    if prog2.text() == prog.text():
      prog2 = permute_conjuncts(prog, rnd)
      kind = 'conjuncts'
  elif kind == 'vars':
    prog2 = rename_variables(prog, rnd)
  elif kind == 'combine_locals':
    prog2 = rename_combine_locals(prog, rnd)
    if prog2.text() == prog.text():
      prog2 = rename_variables(prog, rnd)
      kind = 'vars'
  elif kind == 'preds':
    prog2, m = rename_predicates(prog, rnd)
  else:
    prog2 = rename_variables(permute_conjuncts(permute_rules(prog, rnd), rnd), rnd)
    prog2, m = rename_predicates(prog2, rnd)
  if prog2.text() == prog.text():
    return []
  pairs = []
  strings = lang.strings_of(prog)
  for pred in case.check[-2:]:
    deep = getattr(case, 'deep', False)
    pairs.append(dict(a=Side(prog.text(), pred, workflow=deep, label='original'),
                      b=Side(prog2.text(), m.get(pred, pred), workflow=deep, label=kind),
                      tables=case.used_tables() or ['G'], K=case.K, strings_list=strings,
                      nullable=case.nullable, label='%s/%s/%s' % (case.family, case.notes, kind)))
  return pairs


C07_KF_ORIGINAL = ('@Engine("sqlite");\n'
                   'P(y, z) :- E(x, y), Element([(x + y)], 0) == z, (if (y > z) then z else y) == x;\n')
C07_KF_PERMUTED = ('@Engine("sqlite");\n'
                   'P(y, z) :- (if (y > z) then z else y) == x, Element([(x + y)], 0) == z, E(x, y);\n')


def c07_kf_pairs(seed):
  """witness of KF-C07-order-dependent-elimination: always exercised."""
  return [dict(a=Side(C07_KF_ORIGINAL, 'P', label='original'), b=Side(C07_KF_PERMUTED, 'P', label='conjuncts'),
               tables=['E'], K=2, strings_list=[], label='kf_witness/order-dependent elimination/conjuncts')]


# ---------------------------------------------------------------- C11: shorthand <-> long form

def sugar_pos_to_named(prog, rnd):
  """positional arguments <-> col0:, col1:, ... (body atoms, calls and heads)"""
  def fn(n):
    if isinstance(n, Atom) and n.args and rnd.random() < 0.8:
      return Atom(n.pred, [], [('col%d' % i, a) for i, a in enumerate(n.args)] + list(n.nargs))
    if isinstance(n, ValAtom) and n.args and rnd.random() < 0.8:
      return ValAtom(n.pred, [], [('col%d' % i, a) for i, a in enumerate(n.args)] + list(n.nargs), n.value)
    if isinstance(n, Call) and n.args and rnd.random() < 0.8:
      return Call(n.pred, [], [('col%d' % i, a) for i, a in enumerate(n.args)] + list(n.nargs))
    return n
  rules = []
  heads = {}
  for r in prog.rules:
    if r.pred not in heads:
      heads[r.pred] = rnd.random() < 0.6
  for r in prog.rules:
    r2 = map_rule(r, fn)
    if heads[r.pred] and r2.args:
      r2 = Rule(r2.pred, [], [('col%d' % i, a) for i, a in enumerate(r2.args)] + r2.nargs, r2.value,
                r2.distinct, r2.body, r2.value_style)
    rules.append(r2)
  return Program(rules, prog.annotations, prog.ext, prog.engine_line)


def sugar_field_shorthand(prog, rnd):
  """`a:` <-> `a: a`"""
  def fn(n):
    if isinstance(n, (Atom, ValAtom, Call)):
      nargs = []
      for k, v in n.nargs:
        if v is None:
          nargs.append((k, Var(k)))
        elif isinstance(v, Var) and v.name == k:
          nargs.append((k, None))
        else:
          nargs.append((k, v))
      if isinstance(n, ValAtom):
        return ValAtom(n.pred, n.args, nargs, n.value)
      return type(n)(n.pred, n.args, nargs)
    return n
  rules = []
  for r in prog.rules:
    r2 = map_rule(r, fn)
    nargs = []
    for k, v in r2.nargs:
      if v is None:
        nargs.append((k, Var(k)))
      elif isinstance(v, Var) and v.name == k:
        nargs.append((k, None))
      else:
        nargs.append((k, v))
    r2.nargs = nargs
    rules.append(r2)
  return Program(rules, prog.annotations, prog.ext, prog.engine_line)


def sugar_value(prog, rnd):
  """`F(x) = v` <-> `F(x, logica_value: v)` in heads; `F(x) == v` atoms <-> logica_value: v"""
  def fn(n):
    if isinstance(n, ValAtom):
      return Atom(n.pred, n.args, list(n.nargs) + [('logica_value', n.value)])
    if isinstance(n, Atom) and n.nargs and n.nargs[-1][0] == 'logica_value' and n.nargs[-1][1] is not None:
      return ValAtom(n.pred, n.args, n.nargs[:-1], n.nargs[-1][1])
    return n
  rules = []
  for r in prog.rules:
    r2 = map_rule(r, fn)
    if r2.value is not None and not isinstance(r2.value, Agg):
      r2.value_style = 'logica_value' if r2.value_style == '=' else '='
    rules.append(r2)
  return Program(rules, prog.annotations, prog.ext, prog.engine_line)


class _Lifter:
  """functional call inside an expression <-> extra conjunct binding logica_value"""

  def __init__(self):
    self.n = 0

  def lift(self, e, acc):
    if isinstance(e, Call):
      args = [self.lift(a, acc) for a in e.args]
      nargs = [(k, self.lift(v, acc) if v is not None else None) for k, v in e.nargs]
      self.n += 1
      x = Var('lv%d' % self.n)
      acc.append(Atom(e.pred, args, nargs + [('logica_value', x)]))
      return x
    if isinstance(e, AggE):
      inner = []
      ee = self.lift(e.e, inner)
      body = self.prop(e.body) if e.body is not None else Conj([])
      items = (inner + (body.items if isinstance(body, Conj) else [body]))
      return AggE(e.op, ee, Conj(items), e.style)
    if isinstance(e, Node):
      return mapn(e, lambda c: self.lift(c, acc))
    return e

  def prop(self, p):
    if isinstance(p, Conj):
      out = []
      for x in p.items:
        q = self.prop(x)
        out.extend(q.items if isinstance(q, Conj) else [q])
      return Conj(out)
    if isinstance(p, Disj):
      d = Disj([self.prop(x) for x in p.items])
      if getattr(p, 'bare', False):
        d.bare = True
      return d
    if isinstance(p, Neg):
      return Neg(self.prop(p.p))
    if isinstance(p, Impl):
      return Impl(self.prop(p.a), self.prop(p.b))
    acc = []
    q = self.lift(p, acc)
    if not acc:
      return q
    return Conj(acc + [q])


def sugar_call_as_conjunct(prog, rnd):
  rules = []
  for r in prog.rules:
    lf = _Lifter()
    extra = []
    args = [lf.lift(a, extra) for a in r.args]
    nargs = []
    for k, v in r.nargs:
      if v is None:
        nargs.append((k, None))
      elif isinstance(v, Agg):
        nargs.append((k, Agg(v.op, lf.lift(v.e, extra))))
      else:
        nargs.append((k, lf.lift(v, extra)))
    value = r.value
    if isinstance(value, Agg):
      value = Agg(value.op, lf.lift(value.e, extra))
    elif value is not None:
      value = lf.lift(value, extra)
    body = lf.prop(r.body) if r.body is not None else None
    if extra:
      items = list(extra) + ([body] if body is not None else [])
      body = Conj(items)
    rules.append(Rule(r.pred, args, nargs, value, r.distinct, body, r.value_style))
  return Program(rules, prog.annotations, prog.ext, prog.engine_line)


def sugar_eq(prog, rnd):
  """`=` <-> `==` in propositions"""
  def fn(n):
    if isinstance(n, Cmp) and n.op == '==' and not (isinstance(n.b, AggE) and n.b.style == 'concise'):
      return Cmp('=', n.a, n.b)
    if isinstance(n, Cmp) and n.op == '=':
      return Cmp('==', n.a, n.b)
    return n

  def body_only(r):
    if r.body is None:
      return r
    # only proposition-level comparisons (not comparisons nested in expressions)
    def walk(p):
      if isinstance(p, Conj):
        return Conj([walk(x) for x in p.items])
      if isinstance(p, Disj):
        d = Disj([walk(x) for x in p.items])
        if getattr(p, 'bare', False):
          d.bare = True
        return d
      if isinstance(p, Neg):
        return Neg(walk(p.p))
      if isinstance(p, Impl):
        return Impl(walk(p.a), walk(p.b))
      if isinstance(p, Cmp):
        return fn(p)
      return p
    return Rule(r.pred, r.args, r.nargs, r.value, r.distinct, walk(r.body), r.value_style)
  return Program([body_only(r) for r in prog.rules], prog.annotations, prog.ext, prog.engine_line)


def sugar_negation(prog, rnd):
  """`~P` <-> `Max{1 :- P} is null`;  `A => B` <-> `~(A, ~B)`"""
  def fn(n):
    if isinstance(n, Impl):
      return Neg(Conj([n.a, Neg(n.b)]))
    if isinstance(n, Neg):
      return IsNull(AggE('Max', Num(1), n.p if isinstance(n.p, Conj) else Conj([n.p]), 'brace'))
    return n
  return Program([map_rule(r, fn) for r in prog.rules], prog.annotations, prog.ext, prog.engine_line)


def sugar_impl(prog, rnd):
  def fn(n):
    if isinstance(n, Impl):
      return Neg(Conj([n.a, Neg(n.b)]))
    return n
  return Program([map_rule(r, fn) for r in prog.rules], prog.annotations, prog.ext, prog.engine_line)


def sugar_combine_style(prog, rnd):
  """the three combine syntaxes"""
  order = ['brace', 'combine', 'concise']

  def rot(style, assignable):
    k = rnd.randint(1, 2)
    s = order[(order.index(style) + k) % 3]
    if s == 'concise' and not assignable:
      s = order[(order.index(s) + 1) % 3]
      if s == style:
        s = order[(order.index(s) + 1) % 3]
    return s

  def walk_prop(p):
    if isinstance(p, Conj):
      return Conj([walk_prop(x) for x in p.items])
    if isinstance(p, Disj):
      return Disj([walk_prop(x) for x in p.items])
    if isinstance(p, Neg):
      return Neg(walk_prop(p.p))
    if isinstance(p, Impl):
      return Impl(walk_prop(p.a), walk_prop(p.b))
    if isinstance(p, Cmp) and p.op in ('==', '=') and isinstance(p.a, Var) and isinstance(p.b, AggE):
      b = p.b
      nb = AggE(b.op, walk_expr(b.e), walk_prop(b.body), rot(b.style, True))
      return Cmp('==', p.a, nb)
    if isinstance(p, Node):
      return walk_expr(p)
    return p

  def walk_expr(e):
    if isinstance(e, AggE):
      # a combine that is not the right-hand side of an assignment stays in brace form:
      # `(combine ... :- ...)` as a call argument is rejected by the parser on purpose
      return AggE(e.op, walk_expr(e.e), walk_prop(e.body), e.style)
    if isinstance(e, Node):
      return mapn(e, walk_expr)
    return e

  rules = []
  for r in prog.rules:
    rules.append(Rule(r.pred, [walk_expr(a) for a in r.args],
                      [(k, (Agg(v.op, walk_expr(v.e)) if isinstance(v, Agg) else walk_expr(v)) if v is not None else None)
                       for k, v in r.nargs],
                      (Agg(r.value.op, walk_expr(r.value.e)) if isinstance(r.value, Agg) else
                       (walk_expr(r.value) if r.value is not None else None)),
                      r.distinct, walk_prop(r.body) if r.body is not None else None, r.value_style))
  return Program(rules, prog.annotations, prog.ext, prog.engine_line)


def sugar_in_list(prog, rnd):
  """`x in [a, b]` <-> `(x == a | x == b)`"""
  def fn(n):
    if isinstance(n, InP) and isinstance(n.l, ListE) and 1 <= len(n.l.items) <= 4:
      return Disj([Cmp('==', n.e, it) for it in n.l.items])
    return n
  return Program([map_rule(r, fn) for r in prog.rules], prog.annotations, prog.ext, prog.engine_line)


def sugar_rules_as_disjunction(prog, rnd):
  """several rules <-> one rule whose body is a bare top-level disjunction"""
  out = []
  done = set()
  changed = False
  for r in prog.rules:
    if r.pred in done:
      continue
    group = prog.rules_of(r.pred)
    same_head = all(render_head_key(g) == render_head_key(group[0]) for g in group)
    if len(group) > 1 and same_head and all(g.body is not None for g in group):
      d = Disj([g.body for g in group])
      d.bare = True
      out.append(Rule(r.pred, group[0].args, group[0].nargs, group[0].value, group[0].distinct, d,
                      group[0].value_style))
      done.add(r.pred)
      changed = True
    else:
      out.append(r)
  return Program(out, prog.annotations, prog.ext, prog.engine_line) if changed else prog


def render_head_key(r):
  return render_rule(Rule(r.pred, r.args, r.nargs, r.value, r.distinct, None, r.value_style))


def sugar_split_disjunction(prog, rnd):
  """one rule with a top-level `|` <-> several rules"""
  out = []
  changed = False
  for r in prog.rules:
    if isinstance(r.body, Disj):
      for b in r.body.items:
        out.append(Rule(r.pred, r.args, r.nargs, r.value, r.distinct, b, r.value_style))
      changed = True
    elif isinstance(r.body, Conj) and len(r.body.items) == 1 and isinstance(r.body.items[0], Disj):
      for b in r.body.items[0].items:
        out.append(Rule(r.pred, r.args, r.nargs, r.value, r.distinct, b, r.value_style))
      changed = True
    else:
      out.append(r)
  return Program(out, prog.annotations, prog.ext, prog.engine_line) if changed else prog


def sugar_value_aggregation(prog, rnd):
  """`P(k) Op= e` <-> `P(k, logica_value? Op= e) distinct`"""
  out = []
  for r in prog.rules:
    if isinstance(r.value, Agg):
      out.append(Rule(r.pred, r.args, r.nargs + [('logica_value', r.value)], None, True, r.body))
    elif r.nargs and r.nargs[-1][0] == 'logica_value' and isinstance(r.nargs[-1][1], Agg) and r.distinct \
        and not any(isinstance(v, Agg) for _, v in r.nargs[:-1]):
      out.append(Rule(r.pred, r.args, r.nargs[:-1], r.nargs[-1][1], False, r.body))
    else:
      out.append(r)
  return Program(out, prog.annotations, prog.ext, prog.engine_line)


SUGARS = [sugar_pos_to_named, sugar_field_shorthand, sugar_value, sugar_call_as_conjunct, sugar_eq,
          sugar_negation, sugar_impl, sugar_combine_style, sugar_in_list, sugar_rules_as_disjunction,
          sugar_split_disjunction, sugar_value_aggregation]


def c11_expr_pairs(seed):
  """the `exprs` family (else-if chains, nested negations) under every applicable sugar."""
  return c11_pairs(seed, gen.exprs_case(seed))


def c11_pairs(seed, case=None):
  rnd = random.Random(seed ^ 0xc11)
  case = case or base_case(seed, ('core', 'agg', 'agg', 'sugarbase'))
  prog = case.prog
  cands = list(SUGARS)
  rnd.shuffle(cands)
  pairs = []
  strings = lang.strings_of(prog)
  made = 0
  for sugar in cands:
    prog2 = sugar(prog, rnd)
    if prog2.text() == prog.text():
      continue
    for pred in case.check[-2:]:
      pairs.append(dict(a=Side(prog.text(), pred, label='short'),
                        b=Side(prog2.text(), pred, label=sugar.__name__),
                        tables=case.used_tables() or ['G'], K=case.K, strings_list=strings,
                        nullable=case.nullable,
                        label='%s/%s/%s' % (case.family, case.notes, sugar.__name__)))
    made += 1
    if made >= (12 if case.family in ('sugarbase', 'exprs') else 3):
      break
  return pairs


C11_CIRCULAR_SHORT = """@Engine("sqlite");
P(x) = x;
Q(u, a: u) :- E(x, y), u == (P(y) + 1);
T(Element([v, y, v], 0)) = z :- Q(z, a: x), u == {a: ((-1) * 2), b: [((-1) * y), 1]}, v == Element(u.b, 1), x in [z], Q(x, a: y);
"""


def c11_kf_pairs(seed):
  """witnesses of the two C11 known findings: always exercised."""
  if seed % 3 == 2:
    long = C11_CIRCULAR_SHORT.replace(' == ', ' = ')
    return [dict(a=Side(C11_CIRCULAR_SHORT, 'T', label='short'), b=Side(long, 'T', label='sugar_eq'),
                 tables=['E'], K=2, strings_list=[], label='kf_witness/sugar_eq circular in')]
  x, v = Var('x'), Var('v')
  lhs = [Bin('+', x, Num(1)), Bin('+', Bin('+', x, x), Elem(ListE([x]), Num(0)))][seed % 2]
  a = Program([Rule('T', [x, v], body=Conj([gen.A('G', x), Cmp('==', lhs, v)]))], ext=gen.EXT)
  b = sugar_eq(a, random.Random(0))
  return [dict(a=Side(a.text(), 'T', label='short'), b=Side(b.text(), 'T', label='sugar_eq'),
               tables=['G'], K=2, strings_list=[], label='kf_witness/sugar_eq')]


# ---------------------------------------------------------------- C08: plan-selecting annotations

PLAN_ANNOTATIONS = [None, '@NoInject(%s);', '@With(%s);', '@NoWith(%s);', '@Ground(%s);']


def with_annotations(prog, assignment):
  anns = list(prog.annotations)
  for p, a in assignment.items():
    if a:
      anns.append(a % p)
  return Program(prog.rules, anns, prog.ext, prog.engine_line)


def c08_shared_with_pairs(seed):
  """a grounded predicate and the final predicate both read one WITH-compiled aggregate that is
  itself built on other WITH-compiled predicates; either may come first in the final rule"""
  rnd = random.Random(seed ^ 0x5c08)
  A = gen.A
  x, y, m, n_ = Var('x'), Var('y'), Var('m'), Var('n')
  if seed % 4 == 3:
    # an injectible predicate with an aggregating body, injected twice through an intermediate
    op = rnd.choice(['Min', 'Max', 'Sum'])
    rules = [Rule('Succ', [x], value=AggE(op, y, Conj([A('E', x, y)]), rnd.choice(['brace', 'combine']))),
             Rule('Hop', [x, Call('Succ', [x], [])], body=A('G', x)),
             Rule('T', [x, Call('Succ', [y], [])], body=A('Hop', x, y))]
    plain = Program(rules, [], gen.EXT)
    ann = rnd.choice([['@NoInject(Hop);'], ['@With(Hop);'], ['@NoInject(Hop);', '@NoWith(Hop);'], ['@Ground(Hop);']])
    annotated = Program(rules, ann, gen.EXT)
    return [dict(a=Side(plain.text(), 'T', label='default plan'), b=Side(annotated.text(), 'T', label='annotated'),
                 tables=['E', 'G'], K=2, strings_list=[], require_different_sql=True,
                 label='injected_combine_twice/%s' % ','.join(ann))]
  rules = [Rule('Cc', [x], distinct=True, body=rnd.choice([A('E', x, y), Conj([A('E', x, y), A('G', y)])])),
           Rule('Bb', [x], [('n', Agg(rnd.choice(['Sum', 'Max', 'Count']), y))], distinct=True, body=Conj([A('Cc', x), A('E', x, y)])),
           Rule('Gg', [x], [('m', Agg(rnd.choice(['Max', 'Min', 'Sum']), Var('n')))], distinct=True, body=Atom('Bb', [x], [('n', None)]))]
  atoms = [Atom('Gg', [x], [('m', None)]), Atom('Bb', [x], [('n', None)])]
  if seed % 2:
    atoms.reverse()
  rules.append(Rule('T', [x, m, n_], body=Conj(atoms)))
  plain = Program(rules, [], gen.EXT)
  ann = rnd.choice([['@Ground(Gg);'], ['@Ground(Gg);', '@With(Bb);'], ['@Ground(Gg);', '@Ground(Cc);'], ['@Ground(Gg);', '@NoInject(Cc);']])
  annotated = Program(rules, ann, gen.EXT)
  return [dict(a=Side(plain.text(), 'T', label='default plan'), b=Side(annotated.text(), 'T', label='annotated'),
               tables=['E', 'G'] if 'G(' in plain.text() else ['E'], K=2, strings_list=[],
               require_different_sql=True, label='shared_with/%s/%s' % ('G first' if not seed % 2 else 'B first', ','.join(ann)))]


def c08_pairs(seed):
  rnd = random.Random(seed ^ 0xc08)
  if seed % 3 == 2:
    case = gen.core_case(seed // 3)
    inter = [p for p in case.prog.preds() if p not in case.macros and p not in ('TF', 'Cst', 'Fct', 'UseFct')][:-1]
    checks = case.check[-1:]
    if case.check and case.check[-1] in ('TF', 'UseFct'):
      checks = [p for p in case.check if p not in ('TF', 'UseFct', 'Cst', 'Fct')][-1:]
  else:
    case = gen.layered_case(seed)
    inter = case.intermediates
    checks = case.check
  if not inter or not checks:
    return []
  prog = case.prog
  strings = lang.strings_of(prog)
  pairs = []
  seen = set()
  for _ in range(4):
    assignment = {p: rnd.choice(PLAN_ANNOTATIONS) for p in inter}
    if not any(assignment.values()):
      continue
    key = tuple(sorted(assignment.items()))
    if key in seen:
      continue
    seen.add(key)
    prog2 = with_annotations(prog, assignment)
    for pred in checks:
      if assignment.get(pred):
        continue
      pairs.append(dict(a=Side(prog.text(), pred, label='default plan'),
                        b=Side(prog2.text(), pred, label='annotated'),
                        tables=case.used_tables() or ['G'], K=case.K, strings_list=strings,
                        nullable=case.nullable, require_different_sql=True,
                        label='%s/%s/%s' % (case.family, case.notes,
                                            ','.join('%s:%s' % (p, (a or '-').split('(')[0]) for p, a in sorted(assignment.items())))))
  return pairs


# ---------------------------------------------------------------- C04: functors

def pred_deps(prog):
  """pred -> set of predicates mentioned in its rules"""
  deps = {}
  for r in prog.rules:
    acc = deps.setdefault(r.pred, set())

    def walk(n):
      if isinstance(n, (Atom, ValAtom, Call)):
        acc.add(n.pred)
      if isinstance(n, Node):
        for c in children(n):
          walk(c)
    for a in r.args:
      walk(a)
    for k, v in r.nargs:
      if v is not None:
        walk(v)
    if r.value is not None:
      walk(r.value)
    if r.body is not None:
      walk(r.body)
  return deps


def closure(deps, p):
  seen = set()
  stack = [p]
  while stack:
    q = stack.pop()
    for d in deps.get(q, ()):
      if d not in seen:
        seen.add(d)
        stack.append(d)
  return seen


def hand_substitute(prog, target, functor, bindings):
  """rules defining `target` as `functor` with every use of the argument predicates,
  direct or through the predicates functor is built from, replaced (done on this AST,
  without /repo's functors.py).  Returns the list of new rules."""
  deps = pred_deps(prog)
  args = set(bindings)
  affected = set()
  for p in closure(deps, functor) | {functor}:
    if p in args or p not in deps:
      continue
    if (closure(deps, p) & args) or p == functor:
      affected.add(p)
  ren = dict(bindings)
  for p in affected:
    ren[p] = target if p == functor else '%s_of_%s' % (p, target)
  new = []
  for r in prog.rules:
    if r.pred in affected:
      rr = rename_rule_preds(r, ren)
      new.append(rr)
  return new


def c04_case(seed):
  rnd = random.Random(seed ^ 0xc04)
  x, y, z = Var('x'), Var('y'), Var('z')
  A = gen.A
  rules = [
      Rule('A1', [x], body=A('G', x)),
      Rule('A2', [x, y], body=A('E', x, y)),
      Rule('B1', [x], body=rnd.choice([A('F', x, y), A('F', y, x), Conj([A('G', x), A('F', x, x)])])),
      Rule('B1b', [x], body=rnd.choice([A('E', x, y), Conj([A('G', x), Cmp('>', x, Num(0))])])),
      Rule('B2', [x, y], body=rnd.choice([A('F', x, y), A('F', y, x), A('E', y, x)])),
  ]
  shape = rnd.choice(['direct', 'chain1', 'chain2', 'shared', 'agg', 'both_sides', 'neg'])
  if shape == 'direct':
    rules.append(Rule('Fn', [x, y], body=Conj([A('A1', x), A('A2', x, y)])))
  elif shape == 'chain1':
    rules.append(Rule('Mid', [x, y], body=Conj([A('A1', x), A('A2', x, y)])))
    rules.append(Rule('Fn', [x, y], body=Conj([A('Mid', x, y), A('A1', y)])))
  elif shape == 'chain2':
    rules.append(Rule('Mid', [x, y], body=Conj([A('A2', x, y)])))
    rules.append(Rule('Mid2', [y], distinct=True, body=Conj([A('Mid', x, y), A('A1', x)])))
    rules.append(Rule('Fn', [x, y], body=Conj([A('Mid2', x), A('Mid', x, y)])))
  elif shape == 'shared':
    # an intermediate that depends on both arguments, as in the call-cache scenarios
    rules.append(Rule('Both', [], [('side', Num(1)), ('v', x)], body=A('A1', x)))
    rules.append(Rule('Both', [], [('side', Num(2)), ('v', y)], body=A('A2', x, y)))
    rules.append(Rule('Fn', [], [('side', None), ('total', Agg('Sum', Var('v')))], distinct=True,
                      body=Atom('Both', [], [('side', None), ('v', None)])))
  elif shape == 'agg':
    rules.append(Rule('Mid', [x], value=Agg('Sum', y), body=A('A2', x, y)))
    rules.append(Rule('Fn', [x, z], body=Conj([A('A1', x), Cmp('==', z, Call('Mid', [x], []))])))
  elif shape == 'both_sides':
    rules.append(Rule('Mid', [x], body=Conj([A('A1', x), A('A2', x, y)])))
    rules.append(Rule('Other', [x], body=Conj([A('A2', y, x)])))
    rules.append(Rule('Fn', [x], body=Disj([A('Mid', x), Conj([A('Other', x), A('A1', x)])])))
  else:
    rules.append(Rule('Mid', [x], body=Conj([A('A1', x), Neg(A('A2', x, x))])))
    rules.append(Rule('Fn', [x], body=Conj([A('Mid', x), A('A1', x)])))
  base = Program(rules, ext=gen.EXT)
  unary = ['B1', 'B1b']
  makes = []   # (target, functor, bindings)
  b1 = rnd.choice(unary)
  makes.append(('N1', 'Fn', {'A1': b1}))
  makes.append(('N2', 'Fn', {'A2': 'B2'}))
  kind = rnd.choice(['two_args', 'other_binding', 'same_binding', 'of_result', 'same_value_diff_param',
                     'name_order', 'through_made', 'through_made', 'dependent_args', 'dependent_args'])
  extra_rules = []
  if kind == 'two_args':
    makes.append(('N3', 'Fn', {'A1': b1, 'A2': 'B2'}))
  elif kind == 'other_binding':
    makes.append(('N3', 'Fn', {'A1': [u for u in unary if u != b1][0]}))
  elif kind == 'same_binding':
    makes.append(('N3', 'Fn', {'A1': b1}))
  elif kind == 'of_result':
    makes.append(('N3', 'N1', {'A2': 'B2'}))
  elif kind == 'same_value_diff_param':
    # the same replacement predicate bound to different parameters of one functor whose
    # parameters are both reached through one shared intermediate
    rules = [r for r in rules if r.pred in ('A1', 'A2', 'B1', 'B1b', 'B2')]
    rules.append(Rule('A1c', [x], body=A('F', x, x) if rnd.random() < 0.5 else A('G', x)))
    rules.append(Rule('Both', [], [('side', Num(1)), ('v', x)], body=A('A1', x)))
    rules.append(Rule('Both', [], [('side', Num(2)), ('v', x)], body=A('A1c', x)))
    if rnd.random() < 0.5:
      rules.append(Rule('Fn', [], [('side', None), ('total', Agg('Sum', Var('v')))], distinct=True,
                        body=Atom('Both', [], [('side', None), ('v', None)])))
    else:
      rules.append(Rule('Fn', [Var('side'), Var('v')], body=Atom('Both', [], [('side', None), ('v', None)])))
    base = Program(rules, ext=gen.EXT)
    makes = [('N1', 'Fn', {'A1': b1}), ('N2', 'Fn', {'A1c': b1})]
    shape = 'shared2'
  elif kind == 'dependent_args':
    # one parameter is defined via another parameter; an earlier application binds only the
    # inner one, a later application binds both (the call cache must not replace the binding)
    rules = [r for r in rules if r.pred in ('A1', 'A2', 'B1', 'B1b', 'B2')]
    rules = [r for r in rules if r.pred != 'A1']
    rules.append(Rule('A1', [x], body=Conj([A('A2', x, y), Cmp(rnd.choice(['>', '!=', '<=']), y, Num(rnd.choice([0, 1])))])))
    rules.append(Rule('Fn', [x, y], body=Conj([A('A1', x), A('A2', x, y)])))
    base = Program(rules, ext=gen.EXT)
    makes = [('Quote', 'Fn', {'A2': 'B2'}), ('Special', 'Fn', {'A1': b1, 'A2': 'B2'})]
    if rnd.random() < 0.5:
      makes.append(('Third', 'Fn', {'A1': b1}))
    shape = 'dependent_args'
  elif kind == 'through_made':
    # an ordinary predicate built on a made predicate; a second application reaches the
    # made predicate only through that intermediate, and its argument also occurs inside it
    first, second = rnd.choice([('Zed', 'Abe'), ('Abe', 'Zed'), ('Mk', 'Big')])
    arity2 = any(r.pred == 'Fn' and len(r.args) == 2 for r in rules)
    if arity2:
      extra_rules.append(Rule('Tot', [x], distinct=True, body=A(first, x, y)))
    else:
      extra_rules.append(Rule('Tot', [x], distinct=True, body=(A(first, x) if not any(r.pred == 'Fn' and r.nargs for r in rules)
                                                               else Atom(first, [], [('side', x)]))))
    extra_rules.append(Rule('Rep', [x, y], body=Conj([A('Tot', x), A('A2', x, y)])))
    makes = [(first, 'Fn', {'A1': b1}), (second, 'Rep', {'A2': 'B2'})]
  else:
    # a made predicate whose name sorts before / after the result it is built on
    makes = [('Zed', 'Fn', {'A1': b1}), ('Abe', 'Zed', {'A2': 'B2'})]
  # optionally the functor carries @OrderBy/@Limit: every predicate made from it (also the second
  # link of a chain, N3 := N1(...)) inherits the clauses
  fn_rules = [r for r in base.rules if r.pred == 'Fn']
  ann_fun, ann_of = [], None
  if fn_rules and not fn_rules[0].nargs and rnd.random() < 0.4:
    ncols = len(fn_rules[0].args)
    keys = ', '.join('"col%d%s"' % (i, ' desc' if rnd.random() < 0.5 else '') for i in range(ncols))
    lim = rnd.choice([1, 1, 2])
    ann_of = lambda name: ['@OrderBy(%s, %s);' % (name, keys), '@Limit(%s, %d);' % (name, lim)]
    ann_fun = ann_of('Fn')
    notes_ann = '/limited'
  else:
    notes_ann = ''
  # program with := lines
  fun_rules = list(base.rules)
  made_lines = []
  for target, functor, b in makes:
    made_lines.append('%s := %s(%s);' % (target, functor, ', '.join('%s: %s' % kv for kv in sorted(b.items()))))
  if rnd.random() < 0.5:
    made_lines.reverse()
  fun_prog = Program(base.rules + extra_rules, ann_fun, gen.EXT)
  fun_text = fun_prog.text() + '\n'.join(made_lines) + '\n'
  # hand-substituted program: apply the makes in dependency order on the AST
  hand_rules = list(base.rules) + extra_rules
  hand_ann = list(ann_fun)
  limited = set(['Fn'])
  for target, functor, b in makes:
    cur = Program(hand_rules, [], gen.EXT)
    new_rules = hand_substitute(cur, target, functor, b)
    hand_rules = hand_rules + new_rules
    if ann_of and functor in limited:
      limited.add(target)
      hand_ann += ann_of(target)
    if ann_of:
      # intermediate clones X_of_<target> of a limited X are limited as well
      suffix = '_of_%s' % target
      for name in sorted(set(r.pred for r in new_rules)):
        if name.endswith(suffix) and name[:-len(suffix)] in limited and name not in limited:
          limited.add(name)
          hand_ann += ann_of(name)
  hand_prog = Program(hand_rules, hand_ann, gen.EXT)
  if ann_fun:
    base = Program(base.rules, ann_fun, gen.EXT)
  return base, fun_text, hand_prog, [m[0] for m in makes], '%s/%s%s' % (shape, kind, notes_ann)


def c04_pairs(seed):
  base, fun_text, hand_prog, made, notes = c04_case(seed)
  tables = ['E', 'F', 'G']
  pairs = []
  for n in made:
    pairs.append(dict(a=Side(fun_text, n, label='functor'), b=Side(hand_prog.text(), n, label='by hand'),
                      tables=tables, K=2, strings_list=[], label='made %s %s' % (n, notes)))
  # F, its arguments and bystanders keep their meaning
  for p in ['Fn', 'A1', 'B2'] + (['Mid'] if any(r.pred == 'Mid' for r in base.rules) else []):
    pairs.append(dict(a=Side(fun_text, p, label='with :='), b=Side(base.text(), p, label='without :='),
                      tables=tables, K=2, strings_list=[], label='untouched %s %s' % (p, notes)))
  return pairs


# ---------------------------------------------------------------- C17: @Ground and re-runs

def c17_dataset_pairs(seed):
  """two attached database files and an explicit @Dataset: the grounded table must land in the file of
  the named dataset, and a second program sharing only that file reads it"""
  from .ground import HistorySide, DB_PLACEHOLDER, DB_PLACEHOLDER2
  rnd = random.Random(seed ^ 0xd17)
  A = gen.A
  x, y = Var('x'), Var('y')
  rules = [Rule('M', [x, y], body=rnd.choice([A('E', x, y), Conj([A('E', x, y), Cmp('!=', x, y)])])),
           Rule('N', [x], body=Conj([A('M', x, y), A('G', x)]))]
  first = rnd.choice(['logica_home', 'other'])
  ann = ['@AttachDatabase("%s", "%s");' % (first, DB_PLACEHOLDER), '@AttachDatabase("store", "%s");' % DB_PLACEHOLDER2,
         '@Dataset("store");', '@Ground(M);']
  prog = Program(rules, ann, ext=gen.EXT)
  plain = Program(rules, [], ext=gen.EXT)
  common = dict(tables=['E', 'G'], K=2, strings_list=[])
  notes = 'dataset store next to %s' % first
  return [dict(a=HistorySide(prog.text(), ['N'], label='grounded run'), b=Side(plain.text(), 'N', label='no @Ground'),
               label='rows N %s' % notes, **common),
          dict(a=HistorySide(prog.text(), ['N'], ('table', 'store.M', DB_PLACEHOLDER2), label='table in the store file'),
               b=Side(plain.text(), 'M', label='predicate alone'), label='table store.M after N %s' % notes, **common),
          dict(a=HistorySide(prog.text(), ['N', 'N'], ('table', 'store.M', DB_PLACEHOLDER2), label='re-run'),
               b=HistorySide(prog.text(), ['N'], ('table', 'store.M', DB_PLACEHOLDER2), label='first run'),
               label='rerun table %s' % notes, **common)]


def c17_pairs(seed):
  from .ground import HistorySide, DB_PLACEHOLDER
  rnd = random.Random(seed ^ 0xc17)
  A = gen.A
  x, y, z, s = Var('x'), Var('y'), Var('z'), Var('s')
  dataset = rnd.choice(['logica_home', 'logica_test'])
  rules = []
  mkind = rnd.choice(['agg', 'join', 'multi', 'helper', 'plain', 'helper'])
  if mkind == 'agg':
    rules.append(Rule('M', [x], [('s', Agg('Sum', y))], distinct=True, body=A('E', x, y)))
    def M(a, b):
      return Atom('M', [a], [('s', b)])
  elif mkind == 'join':
    rules.append(Rule('M', [x, y], body=Conj([A('E', x, z), A('F', z, y)])))
    def M(a, b):
      return Atom('M', [a, b], [])
  elif mkind == 'multi':
    rules.append(Rule('M', [x, y], body=A('E', x, y)))
    rules.append(Rule('M', [x, y], body=A('F', y, x)))
    def M(a, b):
      return Atom('M', [a, b], [])
  elif mkind == 'helper':
    # non-injectable helper built on another non-injectable helper
    rules.append(Rule('T2', [x, y], body=A('E', x, y)))
    rules.append(Rule('T2', [x, y], body=A('F', x, y)))
    rules.append(Rule('Tt', [x], [('total', Agg('Sum', y))], distinct=True, body=A('T2', x, y)))
    rules.append(Rule('M', [x, y], body=Conj([Atom('Tt', [x], [('total', y)]), Cmp('>', y, Num(rnd.choice([0, 1])))])))
    def M(a, b):
      return Atom('M', [a, b], [])
  else:
    rules.append(Rule('M', [x, y], body=Conj([A('E', x, y), Cmp('!=', x, y)])))
    def M(a, b):
      return Atom('M', [a, b], [])
  nkind = rnd.choice(['join', 'filter', 'neg', 'agg_expr', 'with_helper', 'two_grounds', 'neg', 'agg_expr',
                      'three_consumers'])
  grounded = ['M']
  if nkind == 'join':
    rules.append(Rule('N', [x, y], body=Conj([M(x, y), A('G', x)])))
  elif nkind == 'filter':
    rules.append(Rule('N', [x, y], body=Conj([M(x, y), Cmp('>', y, Num(0))])))
  elif nkind == 'neg':
    rules.append(Rule('N', [x], body=Conj([A('G', x), Neg(M(x, y))])))
  elif nkind == 'agg_expr':
    rules.append(Rule('N', [x, z], body=Conj([A('G', x), Cmp('==', z, AggE('Sum', y, Conj([M(x, y)]), 'brace'))])))
  elif nkind == 'with_helper' and mkind == 'helper':
    order = [M(x, y), Atom('Tt', [x], [('total', z)])]
    if rnd.random() < 0.5:
      order.reverse()
    rules.append(Rule('N', [x, y, z], body=Conj(order)))
  elif nkind == 'three_consumers' and mkind == 'helper':
    # Tt (aggregate over the two-rule T2) is shared by two grounded predicates and the dependant
    rules.append(Rule('M2', [x, y], body=Conj([Atom('Tt', [x], [('total', y)]), Cmp('<=', y, Num(1))])))
    rules.append(Rule('N', [x, z], body=Conj([M(x, y), Atom('Tt', [x], [('total', z)]), Neg(A('M2', x, z))]) if rnd.random() < 0.5 else
                      Disj([Conj([M(x, z)]), Conj([A('M2', x, z)]), Conj([Atom('Tt', [x], [('total', z)])])])))
    grounded.append('M2')
  elif nkind == 'two_grounds':
    rules.append(Rule('M2', [x], distinct=True, body=M(x, y)))
    rules.append(Rule('N', [x], body=Conj([A('M2', x), A('G', x)])))
    grounded.append('M2')
  else:
    rules.append(Rule('N', [x, y], body=Conj([M(x, y), A('G', y)])))
  # a grounded predicate may name its table explicitly: @Ground(P, "dataset.table")
  table_of = {}
  for g in grounded:
    table_of[g] = '%s.%s' % (dataset, g if rnd.random() < 0.65 else g.lower() + '_snapshot')
  ann = ['@AttachDatabase("%s", "%s");' % (dataset, DB_PLACEHOLDER)] + [
      ('@Ground(%s);' % g) if table_of[g].endswith('.' + g) else ('@Ground(%s, "%s");' % (g, table_of[g])) for g in grounded]
  prog = Program(rules, ann, ext=gen.EXT)
  plain = Program(rules, [], ext=gen.EXT)
  text = prog.text()
  tables = sorted({t for t in ('E', 'F', 'G') if t + '(' in text})
  K = 2
  notes = '%s/%s/%s' % (mkind, nkind, dataset)
  common = dict(tables=tables, K=K, strings_list=[])
  pairs = []
  # dependant's rows == program without @Ground
  pairs.append(dict(a=HistorySide(text, ['N'], label='grounded run'), b=Side(plain.text(), 'N', label='no @Ground'),
                    label='rows N %s' % notes, **common))
  for g in grounded:
    tbl = table_of[g]
    # after a run of the dependant the table holds exactly what the predicate evaluates to
    pairs.append(dict(a=HistorySide(text, ['N'], ('table', tbl), label='table after run'),
                      b=Side(plain.text(), g, label='predicate alone'),
                      label='table %s after N %s' % (g, notes), **common))
    # asking for the grounded predicate itself prints it ...
    pairs.append(dict(a=HistorySide(text, [g], label='print grounded'), b=Side(plain.text(), g, label='predicate alone'),
                      label='print %s %s' % (g, notes), **common))
    # ... without writing it: table after [N, g] == table after [N]
    pairs.append(dict(a=HistorySide(text, ['N', g], ('table', tbl), label='N then print', forbid_write=tbl),
                      b=HistorySide(text, ['N'], ('table', tbl), label='N'),
                      label='no write by print %s %s' % (g, notes), **common))
  # re-running is idempotent: same rows and same table contents
  hist = rnd.choice([['N', 'N'], ['N', 'M', 'N'], ['N', 'N', 'N']])
  pairs.append(dict(a=HistorySide(text, hist, label='re-run'), b=HistorySide(text, ['N'], label='first run'),
                    label='rerun rows %s %s' % ('>'.join(hist), notes), **common))
  pairs.append(dict(a=HistorySide(text, hist, ('table', table_of['M']), label='re-run'),
                    b=HistorySide(text, ['N'], ('table', table_of['M']), label='first run'),
                    label='rerun table %s %s' % ('>'.join(hist), notes), **common))
  return pairs


# ---------------------------------------------------------------- C12: imports

class ImportSide(Side):
  """A program split over files in a scratch directory (written on build, removed after)."""

  def __init__(self, files, main_text, pred, roots=('',), label=''):
    Side.__init__(self, main_text, pred, label=label)
    self.files = files      # {relative path: text}
    self.roots = roots      # sub-directories acting as import roots

  def _materialise(self):
    import tempfile, os
    d = tempfile.mkdtemp(prefix='logica_verif_c12_')
    for rel, text in self.files.items():
      p = os.path.join(d, rel)
      os.makedirs(os.path.dirname(p), exist_ok=True)
      with open(p, 'w') as f:
        f.write(text)
    roots = [os.path.join(d, r) if r else d for r in self.roots]
    return d, (roots if len(roots) > 1 else roots[0] + '/')

  def build(self, D, strings, range_bound, compaction):
    import shutil
    from . import e1
    d, root = self._materialise()
    try:
      side = e1.SqlSide(self.text, self.pred, D, strings, range_bound, compaction, import_root=root)
    finally:
      shutil.rmtree(d, ignore_errors=True)
    return side

  def run_real(self, schema, rows):
    """the split program on real SQLite (files written to a scratch directory)"""
    import shutil
    from . import e1, real
    d, root = self._materialise()
    try:
      c = real.compile_pred(self.text, self.pred, import_root=root)
      return e1.run_real(c.statements(), schema, rows)
    finally:
      shutil.rmtree(d, ignore_errors=True)


def module_rules(rnd, uses=None, own='P', style=0):
  """rules of one module: a private Helper (same name in every module) and an exported
  predicate; `uses` = (name, arity) of an imported predicate to call."""
  A = gen.A
  x, y, z = Var('x'), Var('y'), Var('z')
  h = rnd.choice([A('E', x, y), A('F', x, y), A('F', y, x), Conj([A('E', x, z), A('F', z, y)])])
  rules = [Rule('Helper', [x, y], body=h)]
  body = [A('Helper', x, y)]
  if uses:
    body.append(A(uses, x) if rnd.random() < 0.5 else A(uses, y))
  if rnd.random() < 0.4:
    body.append(Cmp(rnd.choice(['<', '!=', '>=']), x, y))
  if style == 1:
    body.append(Cmp('>', Bin('+', x, y), Num(0)))    # makes this module differ from its namesake
  rules.append(Rule(own, [x], distinct=rnd.random() < 0.3, body=Conj(body)))
  return rules


def render_module(rules, imports):
  lines = ['import %s.%s%s;' % (f, p, (' as ' + a) if a else '') for f, p, a in imports]
  return '\n'.join(lines + [render_rule(r) for r in rules]) + '\n'


def c12_pairs(seed):
  rnd = random.Random(seed ^ 0xc12)
  A = gen.A
  x, y = Var('x'), Var('y')
  layout = ['chain', 'diamond', 'same_private', 'shared_base', 'alias', 'two_roots', 'self_apply',
            'double_import', 'roots_shadow', 'module_functor', 'same_private_agg'][seed % 11]
  files = {}
  flat = []
  roots = ('',)

  def flat_module(rules, prefix, ren_extra=None):
    m = {r.pred: prefix + r.pred for r in rules}
    if ren_extra:
      m.update(ren_extra)
    return [rename_rule_preds(r, m) for r in rules]

  if layout == 'chain':
    r2 = module_rules(rnd, own='P2')
    r1 = module_rules(rnd, uses='P2', own='P1')
    files['lib/m2.l'] = render_module(r2, [])
    files['lib/m1.l'] = render_module(r1, [('lib.m2', 'P2', None)])
    main_rules = [Rule('T', [x], body=Conj([A('P1', x), A('G', x)]))]
    main_imports = [('lib.m1', 'P1', None)]
    flat = flat_module(r2, 'M2x_') + flat_module(r1, 'M1x_', {'P2': 'M2x_P2'}) + \
        [rename_rule_preds(r, {'P1': 'M1x_P1'}) for r in main_rules]
  elif layout == 'diamond':
    r3 = module_rules(rnd, own='P3')
    r1 = module_rules(rnd, uses='P3', own='P1')
    r2 = module_rules(rnd, uses='P3', own='P2')
    files['m3.l'] = render_module(r3, [])
    files['m1.l'] = render_module(r1, [('m3', 'P3', None)])
    files['m2.l'] = render_module(r2, [('m3', 'P3', None)])
    main_rules = [Rule('T', [x], body=Disj([A('P1', x), A('P2', x)]))]
    main_imports = [('m1', 'P1', None), ('m2', 'P2', None)]
    flat = (flat_module(r3, 'M3x_') + flat_module(r1, 'M1x_', {'P3': 'M3x_P3'}) +
            flat_module(r2, 'M2x_', {'P3': 'M3x_P3'}) +
            [rename_rule_preds(r, {'P1': 'M1x_P1', 'P2': 'M2x_P2'}) for r in main_rules])
  elif layout == 'same_private':
    r1 = module_rules(rnd, own='P1')
    r2 = module_rules(rnd, own='P2')
    files['m1.l'] = render_module(r1, [])
    files['m2.l'] = render_module(r2, [])
    # main has its own Helper as well
    main_rules = [Rule('Helper', [x], body=A('G', x)),
                  Rule('T', [x], body=Conj([A('P1', x), A('P2', x), A('Helper', x)]))]
    main_imports = [('m1', 'P1', None), ('m2', 'P2', None)]
    flat = (flat_module(r1, 'M1x_') + flat_module(r2, 'M2x_') +
            [rename_rule_preds(r, {'P1': 'M1x_P1', 'P2': 'M2x_P2'}) for r in main_rules])
  elif layout == 'same_private_agg':
    # the same private predicate name in two modules (and, sometimes, in main), aggregating over
    # several rule bodies: the parser's auxiliary predicates must be private to each file too
    def agg_module(own, srcs, op):
      rs = [Rule('Tot', [x], [('s', lang.Agg(op, y))], distinct=True, body=b) for b in srcs]
      rs.append(Rule(own, [x, Var('s')], body=A('Tot', x, s=Var('s'))))
      return rs
    op1, op2 = rnd.choice(['Sum', 'Max', 'Min']), rnd.choice(['Sum', 'Count'])
    r1 = agg_module('P1', [A('E', x, y), A('F', x, y)], op1)
    r2 = agg_module('P2', [A('F', y, x), Conj([A('E', x, y), A('G', y)])], op2)
    files['m1.l'] = render_module(r1, [])
    files['m2.l'] = render_module(r2, [])
    main_rules = [Rule('T', [x, y], body=Disj([A('P1', x, y), A('P2', x, y)]))]
    if rnd.random() < 0.5:
      main_rules = agg_module('P3', [A('E', y, x), A('E', x, y)], 'Sum') + \
          [Rule('T', [x, y], body=Disj([A('P1', x, y), A('P2', x, y), A('P3', x, y)]))]
    main_imports = [('m1', 'P1', None), ('m2', 'P2', None)]
    flat = (flat_module(r1, 'M1x_') + flat_module(r2, 'M2x_') +
            [rename_rule_preds(r, {'P1': 'M1x_P1', 'P2': 'M2x_P2'}) for r in main_rules])
  elif layout == 'shared_base':
    r1 = module_rules(rnd, own='Pa')
    r2 = module_rules(rnd, own='Pb')
    files['a/util.l'] = render_module(r1, [])
    files['b/util.l'] = render_module(r2, [])
    main_rules = [Rule('T', [x], body=Disj([A('Pa', x), A('Pb', x)]))]
    main_imports = [('a.util', 'Pa', None), ('b.util', 'Pb', None)]
    if rnd.random() < 0.5:
      main_imports.reverse()
    flat = (flat_module(r1, 'Ax_') + flat_module(r2, 'Bx_') +
            [rename_rule_preds(r, {'Pa': 'Ax_Pa', 'Pb': 'Bx_Pb'}) for r in main_rules])
  elif layout == 'alias':
    r1 = module_rules(rnd, own='P1')
    r2 = module_rules(rnd, own='P1')      # same exported name in another file
    files['m1.l'] = render_module(r1, [])
    files['m2.l'] = render_module(r2, [])
    main_rules = [Rule('T', [x], body=Conj([A('Q', x), A('P1', x)]))]
    main_imports = [('m1', 'P1', 'Q'), ('m2', 'P1', None)]
    flat = (flat_module(r1, 'M1x_') + flat_module(r2, 'M2x_') +
            [rename_rule_preds(r, {'Q': 'M1x_P1', 'P1': 'M2x_P1'}) for r in main_rules])
  elif layout == 'two_roots':
    r1 = module_rules(rnd, own='P1')
    r2 = module_rules(rnd, uses='P1', own='P2')
    files['root1/m1.l'] = render_module(r1, [])
    files['root2/m2.l'] = render_module(r2, [('m1', 'P1', None)])
    roots = ('root1', 'root2')
    main_rules = [Rule('T', [x], body=A('P2', x))]
    main_imports = [('m2', 'P2', None)]
    flat = (flat_module(r1, 'M1x_') + flat_module(r2, 'M2x_', {'P1': 'M1x_P1'}) +
            [rename_rule_preds(r, {'P2': 'M2x_P2'}) for r in main_rules])
  elif layout == 'double_import':
    # one predicate imported twice under two names (plain and alias, or two aliases), in main or in
    # an intermediate module; main has an unrelated predicate named like the alias
    r1 = module_rules(rnd, own='P1')
    files['m1.l'] = render_module(r1, [])
    names = rnd.choice([(None, 'Q'), ('Q', None), ('Q', 'Q2')])
    first, second = [n or 'P1' for n in names]
    if rnd.random() < 0.5:
      main_rules = [Rule('T', [x], body=Conj([A(first, x), A(second, x)]))]
      main_imports = [('m1', 'P1', names[0]), ('m1', 'P1', names[1])]
      flat = flat_module(r1, 'M1x_') + [rename_rule_preds(r, {first: 'M1x_P1', second: 'M1x_P1'}) for r in main_rules]
    else:
      mid = [Rule('Mid', [x], body=Conj([A(first, x), A(second, x)]))]
      files['mid.l'] = render_module(mid, [('m1', 'P1', names[0]), ('m1', 'P1', names[1])])
      main_rules = [Rule('Q', [x], body=Conj([A('G', x), Cmp('>', x, Num(70))])),
                    Rule('T', [x], body=Disj([A('Mid', x), A('Q', x)]))]
      main_imports = [('mid', 'Mid', None)]
      flat = (flat_module(r1, 'M1x_') + [rename_rule_preds(r, {'Mid': 'MIDx_Mid', first: 'M1x_P1', second: 'M1x_P1'}) for r in mid] +
              [rename_rule_preds(r, {'Mid': 'MIDx_Mid'}) for r in main_rules])
  elif layout == 'roots_shadow':
    # the same module path exists under both import roots with different contents: the first
    # root that has the file wins (parse.ParseImport walks the roots in order)
    ra = module_rules(rnd, own='P1')
    rb = module_rules(rnd, own='P1', style=1)
    r2 = module_rules(rnd, uses='P1', own='P2')
    files['root1/lib/m1.l'] = render_module(ra, [])
    files['root2/lib/m1.l'] = render_module(rb, [])
    files['root2/m2.l'] = render_module(r2, [('lib.m1', 'P1', None)])
    roots = ('root1', 'root2') if rnd.random() < 0.5 else ('root2', 'root1')
    win = ra if roots[0] == 'root1' else rb
    main_rules = [Rule('T', [x], body=Disj([A('P2', x), A('P1', x)]))]
    main_imports = [('m2', 'P2', None), ('lib.m1', 'P1', None)]
    flat = (flat_module(win, 'M1x_') + flat_module(r2, 'M2x_', {'P1': 'M1x_P1'}) +
            [rename_rule_preds(r, {'P2': 'M2x_P2', 'P1': 'M1x_P1'}) for r in main_rules])
  elif layout == 'module_functor':
    # a functor application inside an imported module (made predicates get the file prefix too),
    # next to same-named predicates in main
    src_b = rnd.choice([A('E', x, y), A('F', y, x)])
    alt_b = rnd.choice([A('F', x, y), A('E', y, x)])
    mod = [Rule('Src', [x], body=src_b), Rule('Alt', [x], body=alt_b),
           Rule('Fn', [x], body=Conj([A('Src', x), A('G', x)])),
           Rule('P1', [x], body=Disj([A('Made', x), A('Fn', x)]))]
    files['m1.l'] = render_module(mod, []) + 'Made := Fn(Src: Alt);\n'
    main_rules = [Rule('Src', [x], body=A('G', x)),
                  Rule('Made', [x], body=Conj([A('G', x), Cmp('>', x, Num(0))])),
                  Rule('T', [x], body=Conj([A('P1', x), A('Src', x)]) if rnd.random() < 0.5 else Disj([A('P1', x), A('Made', x)]))]
    main_imports = [('m1', 'P1', None)]
    modp = Program(mod, [], gen.EXT)
    made_rules = hand_substitute(modp, 'Made', 'Fn', {'Src': 'Alt'})
    flat = flat_module(mod + made_rules, 'M1x_') + [rename_rule_preds(r, {'P1': 'M1x_P1'}) for r in main_rules]
  else:  # self_apply: a predicate applied to its own result inside the module
    step = Rule('Step', [x], value=Bin('+', x, Num(rnd.choice([1, 2]))))
    twice = Rule('Twice', [x], value=Call('Step', [Call('Step', [x], [])], []))
    use = Rule('P1', [x, y], body=Conj([A('G', x), Cmp('==', y, Call('Twice', [x], []))]))
    r1 = [step, twice, use]
    files['m1.l'] = render_module(r1, [])
    main_rules = [Rule('Step', [x], value=Bin('+', x, Num(100))),
                  Rule('T', [x, y], body=Conj([A('P1', x, Var('z')), Cmp('==', y, Call('Step', [Var('z')], []))]))]
    main_imports = [('m1', 'P1', None)]
    flat = flat_module(r1, 'M1x_') + [rename_rule_preds(r, {'P1': 'M1x_P1'}) for r in main_rules]
  main_text = '@Engine("sqlite");\n' + render_module(main_rules, main_imports)
  flat_text = Program(flat, [], gen.EXT).text()
  tables = sorted({t for t in ('E', 'F', 'G') if any((t + '(') in txt for txt in list(files.values()) + [main_text])})
  return [dict(a=ImportSide(files, main_text, 'T', roots, label='split over files'),
               b=Side(flat_text, 'T', label='flattened'),
               tables=tables, K=2, strings_list=[], label='imports/%s' % layout)]


# ---------------------------------------------------------------- C14(b): compiled plans as workflows

def c14_pairs(seed):
  rnd = random.Random(seed ^ 0xc14)
  A = gen.A
  x, y, z = Var('x'), Var('y'), Var('z')
  kind = ['ground_chain', 'ground_diamond', 'deep_rec', 'ground_diamond', 'final_and_intermediate',
          'two_recursions', 'shared_helper', 'shared_helper'][seed % 8]
  pairs = []
  if kind == 'deep_rec':
    case = gen.recdeep_case(seed)
    p = case.check[0]
    rules = list(case.prog.rules) + [Rule('Reader', [x], distinct=True,
                                          body=(A(p, x) if len(case.prog.rules_of(p)[0].args) == 1 else A(p, x, y)))]
    prog = Program(rules, case.prog.annotations, gen.EXT)
    preds = [p, 'Reader']
    K = case.K
  elif kind == 'two_recursions':
    rules = [Rule('Ra', [x], distinct=True, body=A('G', x)),
             Rule('Ra', [y], distinct=True, body=Conj([A('Ra', x), A('E', x, y)])),
             Rule('Rb', [x], distinct=True, body=A('Ra', x)),
             Rule('Rb', [y], distinct=True, body=Conj([A('Rb', x), A('F', x, y)]))]
    prog = Program(rules, ['@Recursive(Ra, %d);' % rnd.choice([21, 22]), '@Recursive(Rb, %d);' % rnd.choice([21, 23])], gen.EXT)
    preds = ['Rb', 'Ra']
    K = 2
  elif kind == 'shared_helper':
    # Source is grounded; Helper (aggregating, not grounded, hence WITH-compiled) reads it and is
    # used by three grounded parents whose names sort around Source
    names = rnd.choice([['Agg1', 'Agg2', 'Agg3'], ['Zed1', 'Agg2', 'Mid3'], ['Tau', 'Upsilon', 'Alpha']])
    rules = [Rule('Source', [x, y], body=A('E', x, y)),
             Rule('Helper', [x], [('s', Agg('Sum', y))], distinct=True, body=A('Source', x, y))]
    ann = ['@Ground(Source);']
    for i, n in enumerate(names):
      rules.append(Rule(n, [x, Bin('+', Var('s'), Num(i))], body=Atom('Helper', [x], [('s', None)])))
      ann.append('@Ground(%s);' % n)
    rules.append(Rule('Report', [x], distinct=True, body=Disj([A(n, x, y) for n in names])))
    prog = Program(rules, ann, gen.EXT)
    preds = rnd.choice([['Report', names[2]], ['Report', names[2], names[0]], [names[1], names[0], 'Report']])
    K = 2
  else:
    rules = [Rule('Shared', [x, y], body=rnd.choice([A('E', x, y), Conj([A('E', x, z), A('F', z, y)])]))]
    ann = ['@Ground(Shared);']
    if kind == 'ground_chain':
      rules.append(Rule('Mid', [x], distinct=True, body=A('Shared', x, y)))
      rules.append(Rule('Top', [x], body=Conj([A('Mid', x), A('G', x)])))
      ann.append('@Ground(Mid);')
      preds = rnd.choice([['Top', 'Mid'], ['Top', 'Mid', 'Shared'], ['Shared', 'Top', 'Mid']])
    elif kind == 'ground_diamond':
      # a grounded table read by two table-producing statements whose names sort on both
      # sides of it
      n1, n2 = rnd.choice([('Alpha', 'Beta'), ('Zeta', 'Alpha'), ('Tau', 'Upsilon'), ('Beta', 'Alpha')])
      rules.append(Rule(n1, [x], distinct=True, body=A('Shared', x, y)))
      rules.append(Rule(n2, [y], distinct=True, body=A('Shared', x, y)))
      rules.append(Rule('Report', [x], body=Conj([A(n1, x), A(n2, x)])))
      ann += ['@Ground(%s);' % n1, '@Ground(%s);' % n2]
      preds = rnd.choice([['Report', n2, n1], [n1, 'Report', n2], [n2, n1, 'Report']])   # both grounded inputs requested too
    else:
      rules.append(Rule('Mid', [x], distinct=True, body=A('Shared', x, y)))
      rules.append(Rule('Top', [x], body=Conj([A('Mid', x), A('G', x)])))
      ann.append('@Ground(Mid);')
      preds = ['Top', 'Shared']    # Shared is final in one execution and intermediate in the other
    prog = Program(rules, ann, gen.EXT)
    K = 2
  text = prog.text()
  tables = sorted({t for t in ('E', 'F', 'G', 'W') if (t + '(') in text})
  common = dict(tables=tables, K=K, strings_list=[])
  for p in preds:
    # asking for several predicates at once returns for each the same table as asking alone
    pairs.append(dict(a=Side(text, p, workflow=True, preds=preds, label='asked together'),
                      b=Side(text, p, workflow=True, preds=[p], label='asked alone'),
                      label='%s/%s together-vs-alone' % (kind, p), **common))
    if len(preds) > 1:
      pairs.append(dict(a=Side(text, p, workflow=True, preds=list(reversed(preds)), label='asked together, other order'),
                        b=Side(text, p, workflow=True, preds=[p], label='asked alone'),
                        label='%s/%s together(reversed)-vs-alone' % (kind, p), **common))
    # the workflow gives what the single script gives
    if kind not in ('deep_rec', 'two_recursions'):
      pairs.append(dict(a=Side(text, p, workflow=True, preds=[p], label='workflow'),
                        b=Side(text, p, label='script'),
                        label='%s/%s workflow-vs-script' % (kind, p), **common))
  return pairs
