"""Pair generators for the metamorphic properties."""
import copy
import random
from .lang import *  # noqa: F401,F403
from . import gen, lang
from .meta import Side


# ---------------------------------------------------------------- AST transforms

def map_props(n, fn):
  """apply fn bottom-up to every node"""
  if isinstance(n, Node):
    n = mapn(n, lambda c: map_props(c, fn))
    return fn(n)
  return n


def map_rule(r, fn):
  def m(v):
    if v is None:
      return None
    return map_props(v, fn)
  return Rule(r.pred, [m(a) for a in r.args], [(k, m(v)) for k, v in r.nargs], m(r.value),
              r.distinct, m(r.body), r.value_style)


def permute_conjuncts(prog, rnd):
  def fn(n):
    if isinstance(n, Conj) and len(n.items) > 1:
      items = list(n.items)
      rnd.shuffle(items)
      return Conj(items)
    return n
  return Program([map_rule(r, fn) for r in prog.rules], prog.annotations, prog.ext, prog.engine_line)


def permute_disjuncts(prog, rnd):
  def fn(n):
    if isinstance(n, Disj) and len(n.items) > 1:
      items = list(n.items)
      rnd.shuffle(items)
      return Disj(items)
    return n
  return Program([map_rule(r, fn) for r in prog.rules], prog.annotations, prog.ext, prog.engine_line)


def permute_rules(prog, rnd):
  rules = list(prog.rules)
  rnd.shuffle(rules)
  return Program(rules, prog.annotations, prog.ext, prog.engine_line)


NAME_POOLS = [
    ['zz', 'yy', 'xx', 'ww', 'vv', 'uu', 'tt', 'ss', 'rr', 'qq', 'pp', 'oo', 'nn'],       # reversed order
    ['col0', 'col1', 'col2', 'value', 'arg', 'xx_0', 't_1', 't_0', 'n', 'logica', 'e', 'f', 'g'],  # look like generated names
    ['a1', 'b', 'c', 'd', 'k2', 'aa', 'ab', 'ba', 'x1', 'x2', 'x10', 'x11', 'x12'],
]


def rename_variables(prog, rnd):
  rules = []
  for r in prog.rules:
    vs = rule_vars(r)
    pool = list(rnd.choice(NAME_POOLS))
    if rnd.random() < 0.5:
      rnd.shuffle(pool)
    keep = set()
    # a variable that doubles as a named-argument shorthand `a:` may be renamed: the
    # renderer expands the shorthand
    m = {}
    for v in vs:
      if v.startswith('call_'):
        continue
      while pool and (pool[0] in vs or pool[0] in m.values()):
        pool.pop(0)
      if not pool:
        break
      m[v] = pool.pop(0)
    rules.append(rename_rule_vars(r, m))
  return Program(rules, prog.annotations, prog.ext, prog.engine_line)


def rename_predicates(prog, rnd, macros=()):
  names = ['Zeta', 'Alpha', 'Mu', 'Beta', 'Omega', 'Aa', 'Zz', 'T0', 'A_b']
  rnd.shuffle(names)
  m = {}
  for p in prog.preds():
    m[p] = names.pop(0)
  rules = [rename_rule_preds(r, m) for r in prog.rules]
  anns = []
  for a in prog.annotations:
    for k, v in m.items():
      a = a.replace('(%s,' % k, '(%s,' % v).replace('(%s)' % k, '(%s)' % v)
    anns.append(a)
  return Program(rules, anns, prog.ext, prog.engine_line), m


def base_case(seed, families=('core', 'agg', 'rec')):
  fam = families[seed % len(families)]
  return getattr(gen, fam + '_case')(seed // len(families))


# ---------------------------------------------------------------- C07(a)

def c07_pairs(seed):
  rnd = random.Random(seed ^ 0xc07)
  case = base_case(seed)
  prog = case.prog
  kind = rnd.choice(['rules', 'conjuncts', 'disjuncts', 'vars', 'preds', 'vars', 'conjuncts', 'all'])
  m = {}
  if kind == 'rules':
    prog2 = permute_rules(prog, rnd)
  elif kind == 'conjuncts':
    prog2 = permute_conjuncts(prog, rnd)
  elif kind == 'disjuncts':
    prog2 = permute_disjuncts(prog, rnd)
    if prog2.text() == prog.text():
      prog2 = permute_conjuncts(prog, rnd)
      kind = 'conjuncts'
  elif kind == 'vars':
    prog2 = rename_variables(prog, rnd)
  elif kind == 'preds':
    prog2, m = rename_predicates(prog, rnd)
  else:
    prog2 = rename_variables(permute_conjuncts(permute_rules(prog, rnd), rnd), rnd)
    prog2, m = rename_predicates(prog2, rnd)
  if prog2.text() == prog.text():
    return []
  pairs = []
  strings = lang.strings_of(prog)
  for pred in case.check[-2:]:
    deep = getattr(case, 'deep', False)
    pairs.append(dict(a=Side(prog.text(), pred, workflow=deep, label='original'),
                      b=Side(prog2.text(), m.get(pred, pred), workflow=deep, label=kind),
                      tables=case.used_tables() or ['G'], K=case.K, strings_list=strings,
                      nullable=case.nullable, label='%s/%s/%s' % (case.family, case.notes, kind)))
  return pairs
