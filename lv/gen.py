"""Seeded catalogue of Logica programs (family generators).  Program *shape* is enumerated
here (it is part of each claim's bound); the *data* the programs run on is symbolic."""
import random
from .lang import *  # noqa: F401,F403
from . import db as dbm

EXT = dict(dbm.SCHEMA)
VARS = ['x', 'y', 'z', 'u', 'v', 'w', 'p', 'q', 'r', 's', 't']


class Case:
  def __init__(self, prog, family, macros=(), check=None, nullable=(), K=2, depths=None,
               notes='', tables=None):
    self.prog = prog
    self.family = family
    self.macros = list(macros)
    self.check = check if check is not None else [p for p in prog.preds() if p not in macros]
    self.nullable = set(nullable)
    self.K = K
    self.depths = depths or {}
    self.notes = notes
    self.tables = tables

  def used_tables(self):
    if self.tables is not None:
      return self.tables
    used = set()

    def walk(n):
      if isinstance(n, (Atom, ValAtom, Call)) and n.pred in EXT:
        used.add(n.pred)
      if isinstance(n, Node):
        for c in children(n):
          walk(c)
    for r in self.prog.rules:
      for a in r.args:
        walk(a)
      for k, v in r.nargs:
        if v is not None:
          walk(v)
      if r.value is not None:
        walk(r.value)
      if r.body is not None:
        walk(r.body)
    return sorted(used)


def A(p, *a, **k):
  return Atom(p, list(a), list(k.items()))


class Builder:
  """Random construction of range-restricted, well-typed (all-integer) rule bodies."""

  def __init__(self, rnd, preds, macros=()):
    self.rnd = rnd
    self.preds = preds      # name -> (n positional, [named], has_value)
    self.macros = macros
    self.counter = 0
    self.used = set()
    self.coln_p = 0.12
    self.atom_bound = set()

  def fresh(self, used):
    for v in VARS:
      if v not in used and v not in self.used:
        self.used.add(v)
        return v
    self.counter += 1
    self.used.add('v%d' % self.counter)
    return 'v%d' % self.counter

  def const(self):
    return Num(self.rnd.choice([0, 1, 2, 3, -1, 5]))

  def atom(self, bound, pool=None, join_p=0.5, allow_const=True):
    rnd = self.rnd
    name = rnd.choice(pool or [p for p in self.preds if p not in self.macros])
    npos, named, has_val = self.preds[name]
    args = []
    new = []

    def pick():
      r = rnd.random()
      cands = list(bound) + new
      if cands and r < join_p:
        return Var(rnd.choice(cands))
      if allow_const and r > 0.93:
        return self.const()
      v = self.fresh(set(bound) | set(new))
      new.append(v)
      return Var(v)
    for _ in range(npos):
      args.append(pick())
    nargs = []
    for n in named:
      if rnd.random() < 0.8:
        e = pick()
        if isinstance(e, Var) and e.name == n:
          nargs.append((n, None))
        else:
          nargs.append((n, e))
    if has_val:
      nargs.append(('logica_value', pick()))
    self.atom_bound |= set(new)
    if npos and name not in self.macros and rnd.random() < (self.coln_p if name in EXT else 3 * self.coln_p):
      # positional argument N addressed by its documented name colN (all, or only a suffix)
      k = rnd.randrange(npos)
      nargs = [('col%d' % i, args[i]) for i in range(k, npos)] + nargs
      args = args[:k]
    return Atom(name, args, nargs), new

  def int_expr(self, bound, depth=0):
    rnd = self.rnd
    r = rnd.random()
    if not bound or r < 0.1:
      return self.const()
    if r < 0.5 or depth > 1:
      return Var(rnd.choice(sorted(bound)))
    if r < 0.7:
      return Bin(rnd.choice(['+', '-']), self.int_expr(bound, depth + 1), self.int_expr(bound, depth + 1))
    if r < 0.77:
      return Bin('*', Num(rnd.choice([2, 3, -1])), self.int_expr(bound, depth + 1))
    if r < 0.82:
      return UMinus(self.int_expr(bound, depth + 1))
    if r < 0.9:
      return If(self.bool_expr(bound, depth + 1), self.int_expr(bound, depth + 1),
                self.int_expr(bound, depth + 1))
    l = ListE([self.int_expr(bound, depth + 1) for _ in range(rnd.randint(1, 3))])
    if rnd.random() < 0.5:
      return Size(l)
    return Elem(l, Num(rnd.randrange(len(l.items))))

  def bool_expr(self, bound, depth=0):
    rnd = self.rnd
    r = rnd.random()
    c = Cmp(rnd.choice(['==', '!=', '<', '<=', '>', '>=']), self.int_expr(bound, depth + 1),
            self.int_expr(bound, depth + 1))
    if depth > 0 or r < 0.6:
      return c
    c2 = Cmp(rnd.choice(['<', '>', '==']), self.int_expr(bound, depth + 1), self.const())
    return (BAnd if r < 0.8 else BOr)(c, c2)

  def body(self, natoms, extras, pool=None, bound=None, disj_p=0.25):
    rnd = self.rnd
    bound = list(bound or [])
    items = []
    for i in range(natoms):
      a, new = self.atom(bound, pool)
      bound += new
      items.append(a)
    if not bound:
      a, new = self.atom(bound, pool, join_p=0, allow_const=False)
      bound += new
      items.append(a)
    for _ in range(extras):
      kind = rnd.choice(['cmp', 'assign', 'in', 'range', 'rec', 'bool', 'assign'])
      if kind == 'cmp':
        items.append(Cmp(rnd.choice(['<', '<=', '>', '>=', '!=', '==']),
                         self.int_expr(bound), self.int_expr(bound)))
      elif kind == 'bool':
        items.append(self.bool_expr(bound))
      elif kind == 'assign':
        v = self.fresh(bound)
        e = self.int_expr(bound)
        items.append(Cmp('==', Var(v), e) if rnd.random() < 0.7 else Cmp('==', e, Var(v)))
        bound.append(v)
      elif kind == 'in':
        l = ListE([self.int_expr(bound, 1) for _ in range(rnd.randint(1, 3))])
        if rnd.random() < 0.3:
          # membership of a computed value: one solution per equal element (duplicates count)
          items.append(InP(rnd.choice([Bin('+', Var(rnd.choice(bound)), Num(1)), Num(rnd.choice([0, 1, 2])),
                                       Builtin('Greatest', [Var(rnd.choice(bound)), Num(0)])]),
                           ListE(list(l.items) + [rnd.choice(l.items)])))
        elif rnd.random() < 0.6:
          v = self.fresh(bound)
          items.append(InP(Var(v), l))
          bound.append(v)
        else:
          # membership test of an already bound variable: the compiler reads `v in l` as an
          # unnesting and reports a circular dependency when l depends on v, also through
          # assignments; so v and the variables of l must be bound directly by atoms
          v = rnd.choice(bound)
          if v not in self.atom_bound or not (set(variables(l)) <= self.atom_bound - {v}):
            v = self.fresh(bound)
            bound.append(v)
          items.append(InP(Var(v), l))
      elif kind == 'range':
        v = self.fresh(bound)
        items.append(InP(Var(v), RangeE(Var(rnd.choice(bound)))))
        bound.append(v)
      elif kind == 'rec' and rnd.random() < 0.4:
        # r == (if c then {..} else {..}) with two accesses of r
        v = self.fresh(bound)
        c = self.bool_expr(bound, 1)
        r1 = RecE([('a', self.int_expr(bound, 1)), ('b', self.int_expr(bound, 1))])
        r2 = RecE([('a', self.int_expr(bound, 1)), ('b', self.const())])
        items.append(Cmp('==', Var(v), If(c, r1, r2)))
        w = self.fresh(bound + [v])
        items.append(Cmp('==', Var(w), rnd.choice([Bin('+', Field(Var(v), 'a'), Field(Var(v), 'b')),
                                                   Bin('-', Field(Var(v), 'b'), Field(Var(v), 'a')),
                                                   Bin('+', Field(Var(v), 'a'), Field(Var(v), 'a'))])))
        bound.append(w)
      elif kind == 'rec':
        v = self.fresh(bound)
        f1, f2 = self.int_expr(bound, 1), self.int_expr(bound, 1)
        rec = RecE([('a', f1), ('b', ListE([f2, self.const()]))])
        items.append(Cmp('==', Var(v), rec))
        w = self.fresh(bound + [v])
        acc = rnd.choice([Field(Var(v), 'a'), Elem(Field(Var(v), 'b'), Num(rnd.randint(0, 1))),
                          Bin('+', Field(Var(v), 'a'), Elem(Field(Var(v), 'b'), Num(0)))])
        items.append(Cmp('==', Var(w), acc))
        bound.append(w)   # v is a record: not exported as int
    return items, bound


def shuffle_keep(rnd, items):
  items = list(items)
  rnd.shuffle(items)
  return items


# ---------------------------------------------------------------- family: core (C01)

def core_case(seed):
  rnd = random.Random(seed)
  preds = {'E': (2, [], False), 'F': (2, [], False), 'G': (1, [], False), 'H': (0, ['a', 'b'], False)}
  rules = []
  macros = []
  names = ['P', 'Q', 'T']
  nlayers = rnd.randint(1, 3)
  ints = {}
  for li in range(nlayers):
    name = names[li]
    b = Builder(rnd, preds, macros)
    npos = rnd.randint(0, 2)
    named = rnd.choice([[], [], ['a'], ['k', 'b'], ['a', 'b', 'c']])
    if npos == 0 and not named:
      npos = 1
    functional = rnd.random() < 0.35
    # an injectible-only (not range restricted) functional predicate, used by later layers
    if li < nlayers - 1 and rnd.random() < 0.25:
      fv = ['x', 'y'][:rnd.randint(1, 2)]
      e = b.int_expr(fv)
      rules.append(Rule(name, [Var(v) for v in fv], value=e))
      macros.append(name)
      preds[name] = (len(fv), [], True)
      ints[name] = 'macro'
      continue
    nrules = rnd.choice([1, 1, 2, 3]) if len(named) < 3 else rnd.choice([2, 3])
    for ri in range(nrules):
      natoms = rnd.randint(1, 3 if li == 0 else 2)
      pool = None
      if li > 0 and rnd.random() < 0.8:
        # make sure a lower layer is used
        pool = [n for n in preds if n in ints and ints[n] != 'macro'] or None
      items, bound = b.body(1 if pool else natoms, 0, pool=pool)
      more, bound = b.body(natoms - 1 if pool else 0, rnd.randint(0, 2), bound=bound) if True else ([], bound)
      # b.body always adds >=1 atom when nothing is bound; bound is non-empty here
      items += more
      # calls of functional predicates in expressions
      fpreds = [n for n in preds if preds[n][2]]
      if fpreds and rnd.random() < 0.7:
        fn = rnd.choice(fpreds)
        npos_f = preds[fn][0]
        call = Call(fn, [b.int_expr(bound, 1) if fn in macros else Var(rnd.choice(bound))
                         for _ in range(npos_f)], [])
        v = b.fresh(bound)
        items.append(Cmp('==', Var(v), rnd.choice([call, call, call, Bin('+', call, Num(1)),
                                                  # the same call text twice: each occurrence is its own conjunct
                                                  Bin('-', call, call), Bin('+', call, call)])))
        bound.append(v)
      front_disj = False
      if rnd.random() < 0.3 and len(items) >= 2:
        # nested disjunction
        k = rnd.randrange(len(items))
        if isinstance(items[k], Atom) and items[k].pred in ('E', 'F') and len(items[k].args) == 2:
          other = 'F' if items[k].pred == 'E' else 'E'
          alt = Atom(other, list(reversed(items[k].args)), [])
          items[k] = Disj([items[k], alt if rnd.random() < 0.5 else Conj([alt, A('G', items[k].args[0])])])
          if rnd.random() < 0.5:
            # the disjunction first, everything else after it (DNF must distribute over all of it)
            items = [items[k]] + items[:k] + items[k + 1:]
            front_disj = True
      body = Conj(shuffle_keep(rnd, items) if (rnd.random() < 0.5 and not front_disj) else items)
      head_args = [b.int_expr(bound, 1) for _ in range(npos)]
      head_named = []
      for n in named:
        if n in bound and rnd.random() < 0.5:
          head_named.append((n, None))
        else:
          head_named.append((n, b.int_expr(bound, 1)))
      value = b.int_expr(bound, 1) if functional else None
      if len(head_named) > 2 and ri > 0:
        k = rnd.randrange(1, len(head_named))
        head_named = head_named[k:] + head_named[:k]     # a rotation is not its own inverse
      elif len(head_named) > 1 and ri > 0 and rnd.random() < 0.5:
        head_named.reverse()     # rules of one predicate may list named arguments in any order
      rules.append(Rule(name, head_args, head_named, value, False, body,
                        rnd.choice(['=', '=', 'logica_value'])))
    preds[name] = (npos, named, functional)
    ints[name] = 'concrete'
  # occasionally a fact predicate with string keys
  if rnd.random() < 0.3:
    facts = [('a', 1), ('b', 2), ('a', 2), ("c'd", 0)][:rnd.randint(2, 4)]
    for s, n in facts:
      rules.append(Rule('Fct', [Str(s), Num(n)]))
    x, y = Var('x'), Var('y')
    rules.append(Rule('UseFct', [x, y], body=Conj([A('Fct', x, y), A('G', y)] +
                                                  ([Cmp('==', x, Str('a'))] if rnd.random() < 0.5 else []))))
  # table-free rules: bodies made only of single-fact (hence injected) predicates
  if rnd.random() < 0.3:
    c1, c2 = rnd.choice([0, 1, 5, 7]), rnd.choice([0, 2, 5, 10])
    rules.append(Rule('Cst', [Num(c1), Num(c2)]))
    x, y = Var('x'), Var('y')
    cond = rnd.choice([Cmp('>', x, y), Cmp('<', x, Num(3)), Cmp('==', x, y), Cmp('!=', y, Num(c2)),
                       BOr(Cmp('>', x, Num(6)), Cmp('<', y, Num(1)))])
    rules.append(Rule('TF', [x, Bin('+', x, y)], body=Conj([A('Cst', x, y), cond])))
    if rnd.random() < 0.5:
      rules.append(Rule('TF', [y, x], body=Conj([A('Cst', x, y), Cmp(rnd.choice(['<', '>=']), x, Num(rnd.choice([1, 5, 6])))])))
  prog = Program(rules, ext=EXT)
  return Case(prog, 'core', macros=macros, K=2)


# ---------------------------------------------------------------- family: agg (C02)

AGG_SIMPLE = ['Sum', 'Min', 'Max', 'Count', 'List', 'Set']


def agg_case(seed):
  rnd = random.Random(seed ^ 0x5a5a)
  kinds = ['pred', 'pred', 'multibody', 'distinct', 'expr', 'expr', 'two_combines',
           'nested', 'neg', 'neg_conj', 'impl', 'argbest', 'nullable', 'expr_head',
           'consumer', 'combine_chain', 'combine_chain', 'nested_siblings', 'literal_keys_empty', 'inj_combine_twice']
  kind = kinds[seed % len(kinds)]      # every kind appears in every 19 consecutive seeds
  x, y, z, u, v, w = [Var(n) for n in 'xyzuvw']
  rules = []
  nullable = set()
  K = 2
  notes = kind

  def src_body(nkeys):
    """a body binding key variables and an aggregated variable y (1-2 atoms)."""
    c = rnd.randrange(6)
    if c == 0:
      return [A('E', x, y)], [x][:nkeys] if nkeys <= 1 else None
    if c == 1:
      return [A('W', x, z, y)], [x, z][:nkeys]
    if c == 2:
      return [A('E', x, z), A('F', z, y)], [x, z][:nkeys]
    if c == 3:
      return [A('W', x, z, y), A('G', x)], [x, z][:nkeys]
    if c == 4:
      return [A('E', x, y), Cmp('>', y, Num(0))], [x][:nkeys] if nkeys <= 1 else None
    return [Disj([A('E', x, y), A('F', y, x)])], [x][:nkeys] if nkeys <= 1 else None

  def body_keys(nkeys):
    while True:
      items, keys = src_body(nkeys)
      if keys is not None:
        return items, keys

  def agg_value_expr():
    return rnd.choice([y, y, Bin('+', y, Num(1)), Bin('*', Num(2), y), Bin('-', y, x)])

  if kind in ('pred', 'multibody', 'nullable'):
    nkeys = rnd.randint(0, 2)
    items, keys = body_keys(nkeys)
    nagg = rnd.randint(1, 2)
    ops = [rnd.choice(AGG_SIMPLE) for _ in range(nagg)]
    value_style = nagg == 1 and rnd.random() < 0.5
    es = [agg_value_expr() if kind != 'nullable' else y for _ in range(nagg)]
    if kind == 'nullable':
      items, keys = [A('W', x, z, y)], [x, z][:nkeys]
      nullable = {('W', 'col2')}
      ops = [rnd.choice(['Sum', 'Min', 'Max', 'Count']) for _ in range(nagg)]
      K = 3

    if rnd.random() < 0.25:
      # literal-valued keys (alone or next to a variable key)
      lit = rnd.choice([Num(7), Str('big'), Num(0)])
      keys = [lit] + (list(keys[:1]) if rnd.random() < 0.4 else [])
      if rnd.random() < 0.5:
        items = list(items) + [Cmp('>', y, Num(rnd.choice([0, 2, 100])))]

    def mk(items):
      if value_style:
        return Rule('P', keys, [], Agg(ops[0], es[0]), False, Conj(items))
      return Rule('P', keys, [('a%d' % i, Agg(ops[i], es[i])) for i in range(nagg)], None, True,
                  Conj(items))
    rules.append(mk(items))
    if kind == 'multibody':
      # second body over other tables with the same variables
      alt = rnd.choice([[A('F', x, y)], [A('E', y, x)], [A('F', x, z), A('E', z, y)]])
      if len(keys) == 2:
        alt = [A('W', x, z, y)] if rnd.random() < 0.5 else [A('E', x, z), A('E', z, y)]
      rules.append(mk(alt))
    if len(items) == 1 and kind != 'multibody':
      K = 3
  elif kind == 'distinct':
    items, keys = body_keys(rnd.randint(1, 2))
    if rnd.random() < 0.25:
      rules.append(Rule('P', [rnd.choice([Str('yes'), Num(1)])] + (keys[:1] if rnd.random() < 0.3 else []),
                        [], None, True, Conj(items)))
      prog = Program(rules, ext=EXT)
      return Case(prog, 'agg', K=3 if len(items) == 1 else 2, notes='distinct_literal_key')
    rules.append(Rule('P', keys + ([Bin('+', keys[0], Num(1))] if rnd.random() < 0.3 else []),
                      [], None, True, Conj(items)))
    if rnd.random() < 0.5:
      rules.append(Rule('P', list(rules[0].args[:len(keys)]) + ([Num(7)] if len(rules[0].args) > len(keys) else []),
                        [], None, True, Conj([A('F', *keys)] if len(keys) == 2 else [A('G', keys[0])])))
    K = 3 if len(items) == 1 else 2
  elif kind in ('expr', 'expr_head'):
    op = rnd.choice(AGG_SIMPLE)
    style = rnd.choice(['brace', 'combine', 'concise'])
    outer = rnd.choice([[A('G', x)], [A('E', x, z)], [A('G', x), A('G', z)]])
    two = len(outer) > 1 or outer[0].pred == 'E'
    inner = rnd.choice([[A('E', x, y)], [A('F', y, x)], [A('E', x, u), A('F', u, y)],
                        [A('E', x, y), Cmp('<', y, Num(3))]])
    if two and rnd.random() < 0.6:
      inner = rnd.choice([[A('W', x, z, y)], [A('E', x, y), A('F', y, z)],
                          [A('E', x, y), Cmp('!=', y, z)]])
    e = rnd.choice([y, Bin('+', y, Num(1)), Bin('+', y, x), x, Bin('+', x, Num(1)), Num(1)] + ([z, Bin('-', x, z)] if two else []))
    agg = AggE(op, e, Conj(inner), style)
    if kind == 'expr_head' and style == 'brace':
      # ((combine ...) directly as a call argument is rejected by the parser; concise needs a variable)
      rules.append(Rule('P', [x, agg], body=Conj(outer)))
    else:
      use = rnd.choice(['out', 'cmp', 'isnull'])
      items = list(outer) + [Cmp('==', v, agg)]
      if op in ('List', 'Set'):
        use = rnd.choice(['out', 'size'])
      if use == 'out':
        rules.append(Rule('P', [x, v], body=Conj(items)))
      elif use == 'size':
        rules.append(Rule('P', [x, Size(v)], body=Conj(items)))
      elif use == 'cmp':
        rules.append(Rule('P', [x], body=Conj(items + [Cmp('>', v, Num(1))])))
      else:
        rules.append(Rule('P', [x], body=Conj(items + [IsNull(v)])))
  elif kind == 'two_combines':
    # the same local variable name in two combines of one rule
    op1, op2 = rnd.choice(['Sum', 'Min', 'Max', 'Count']), rnd.choice(['Sum', 'Min', 'Max', 'Count'])
    s1, s2 = rnd.choice(['brace', 'combine', 'concise']), rnd.choice(['brace', 'combine', 'concise'])
    a1 = AggE(op1, y, Conj([A('E', x, y)]), s1)
    a2 = AggE(op2, y, Conj([A('F', x, y)] if rnd.random() < 0.5 else [A('F', y, x)]), s2)
    rules.append(Rule('P', [x, u, v], body=Conj([A('G', x), Cmp('==', u, a1), Cmp('==', v, a2)])))
  elif kind == 'combine_chain':
    # three or four aggregating conjuncts with the same local variable name; later ones use
    # the values of earlier ones inside their bodies
    n = rnd.randint(3, 4)
    names = [u, v, w, Var('t')][:n]
    styles = [rnd.choice(['brace', 'combine', 'concise']) for _ in range(n)]
    tbl = rnd.choice(['G', 'E'])
    items = []
    outer_is_x = rnd.random() < 0.4
    if outer_is_x:
      items.append(A('G', x))
    for i in range(n):
      op = rnd.choice(['Sum', 'Min', 'Max', 'Count'])
      src_atom = A('G', y) if tbl == 'G' else (A('E', x, y) if outer_is_x else A('E', y, z))
      body = [src_atom]
      if i > 0 and rnd.random() < 0.8:
        body.append(Cmp(rnd.choice(['>', '<', '!=', '>=']), y, names[rnd.randrange(i)]))
      elif rnd.random() < 0.5:
        body.append(Cmp('>', y, Num(1)))
      cmpop = '==' if rnd.random() < 0.6 else '='
      items.append(Cmp(cmpop, names[i], AggE(op, y, Conj(body), styles[i])))
    if rnd.random() < 0.5:
      rnd.shuffle(items)
    rules.append(Rule('P', ([x] if outer_is_x else []) + names, body=Conj(items)))
  elif kind == 'nested_siblings':
    # two sibling combines nested inside one outer combine, both calling their local variable y;
    # the value of the first is used inside the second
    o1, o2, oo = rnd.choice(['Sum', 'Max', 'Count']), rnd.choice(['Sum', 'Min', 'Max']), rnd.choice(['Sum', 'Max', 'Min'])
    first = AggE(o1, y, Conj([A('E', w, y)]), rnd.choice(['brace', 'combine', 'concise']))
    second = AggE(o2, y, Conj([A('F', w, y), Cmp(rnd.choice(['>', '<=', '!=']), y, u)]), rnd.choice(['brace', 'combine', 'concise']))
    inner = [A('G', w), Cmp('==', u, first), Cmp('==', z, second)]
    if rnd.random() < 0.5:
      inner = [inner[0], inner[2], inner[1]]
    outer = AggE(oo, Bin('+', z, u) if rnd.random() < 0.5 else z, Conj(inner), 'brace')
    rules.append(Rule('P', [x, v], body=Conj([A('G', x), Cmp('==', v, outer)])))
  elif kind == 'inj_combine_twice':
    # an injectible predicate whose body is an aggregating expression with a local variable, injected
    # twice into one rule (directly nested, or through another injected rule); the value of one
    # instance is the argument of the other
    op = rnd.choice(['Min', 'Max', 'Sum'])
    rules.append(Rule('Succ', [x], value=AggE(op, y, Conj([A('E', x, y)]), rnd.choice(['brace', 'combine']))))
    macros = ['Succ']
    if rnd.random() < 0.5:
      rules.append(Rule('P', [x, Call('Succ', [Call('Succ', [x], [])], [])], body=A('G', x)))
    else:
      rules.append(Rule('Hop', [x, Call('Succ', [x], [])], body=A('G', x)))
      rules.append(Rule('P', [x, Call('Succ', [y], [])], body=A('Hop', x, y)))
    prog = Program(rules, ext=EXT)
    return Case(prog, 'agg', macros=macros, K=2, notes=kind, check=['P'])
  elif kind == 'literal_keys_empty':
    # every key of an aggregating predicate is a literal and the body may have no solution:
    # a distinct predicate with keys has no row then (and its readers see none)
    lit = rnd.choice([Str('total'), Num(7)])
    cond = Cmp('>', y, Num(rnd.choice([0, 5, 100])))
    rules.append(Rule('P', [lit], [('s', Agg('Sum', y)), ('m', Agg('Max', y))][:rnd.randint(1, 2)], None, True,
                      Conj([A('E', x, y), cond])))
    rules.append(Rule('HasP', [x], body=Conj([A('G', x), Atom('P', [Var('k')], [])])))
    rules.append(Rule('NoP', [x], body=Conj([A('G', x), Neg(Atom('P', [Var('k')], []))])))
    K = 3
  elif kind == 'nested' and rnd.random() < 0.4:
    # two levels deep; the innermost body refers to the rule-level x, the middle one does not
    opi, opo = rnd.choice(['Sum', 'Max', 'Count']), rnd.choice(['Sum', 'Min', 'Max'])
    inner = AggE(opi, y, Conj([A('E', x, y), Cmp(rnd.choice(['>=', '!=', '<']), y, w)]), rnd.choice(['brace', 'combine']))
    outer = AggE(opo, z, Conj([A('G', w), Cmp('==', z, inner)]), 'brace')
    if rnd.random() < 0.5:
      rules.append(Rule('P', [x, v], body=Conj([A('G', x), Cmp('==', v, outer)])))
    else:
      rules.append(Rule('P', [x], body=Conj([A('G', x), Neg(Conj([A('G', w), Neg(A('E', x, w))]))])))
  elif kind == 'nested':
    opi, opo = rnd.choice(['Sum', 'Max', 'Count']), rnd.choice(['Sum', 'Min', 'Max'])
    inner = AggE(opi, z, Conj([A('F', y, z)]), rnd.choice(['brace', 'combine']))
    same_name = rnd.random() < 0.5
    if same_name:
      inner = AggE(opi, y, Conj([A('F', u, y)]), 'brace')
      outer = AggE(opo, w, Conj([A('E', x, u), Cmp('==', w, inner)]), 'brace')
    else:
      outer = AggE(opo, w, Conj([A('E', x, y), Cmp('==', w, inner)]), 'brace')
    rules.append(Rule('P', [x, v], body=Conj([A('G', x), Cmp('==', v, outer)])))
  elif kind == 'neg':
    pos = rnd.choice([[A('G', x)], [A('E', x, y)]])
    negd = rnd.choice([A('E', x, x), A('F', x, z), A('E', z, x)])
    if len(pos[0].args) == 2 and rnd.random() < 0.5:
      negd = A('F', y, x)
    rules.append(Rule('P', [a for a in pos[0].args], body=Conj(pos + [Neg(negd)])))
    K = 3
  elif kind == 'neg_conj':
    pos = [A('G', x)]
    negd = Conj(rnd.choice([[A('E', x, z), A('F', z, u)], [A('E', x, z), Cmp('>', z, Num(1))],
                            [A('E', x, z), Neg(A('G', z))]]))
    rules.append(Rule('P', [x], body=Conj(pos + [Neg(negd)])))
  elif kind == 'impl':
    rules.append(Rule('P', [x], body=Conj([A('G', x), Impl(A('E', x, y), rnd.choice([A('F', y, x), A('G', y), Cmp('>', y, Num(0))]))])))
  elif kind == 'argbest' and (seed // len(kinds)) % 2 == 1:
    # ArgMinK / ArgMaxK through the documented wrapper idiom (every other program of this kind)
    which = ['Min', 'Max'][(seed // (2 * len(kinds))) % 2]
    k = [2, 3, 2, 1][(seed // (2 * len(kinds))) % 4]
    op = 'Arg%s%d' % (which, k)
    nkeys = rnd.randint(0, 1)
    wrapper = '%s(x) = Arg%sK(x, %d);' % (op, which, k)
    if rnd.random() < 0.5:
      rules.append(Rule('P', [x][:nkeys], [], Agg(op, Arrow(z, y)), False, Conj([A('W', x, z, y)])))
    else:
      rules.append(Rule('P', [x][:nkeys], [('best', Agg(op, Arrow(z, y))), ('n', Agg('Sum', Num(1)))], None, True,
                        Conj([A('W', x, z, y)])))
    prog = Program(rules, [wrapper], ext=EXT)
    return Case(prog, 'agg', K=3, notes='argbest_k %s' % op)
  elif kind == 'argbest':
    op = rnd.choice(['ArgMin', 'ArgMax'])
    nkeys = rnd.randint(0, 1)
    if rnd.random() < 0.5:
      rules.append(Rule('P', [x][:nkeys], [], Agg(op, Arrow(z, y)), False, Conj([A('W', x, z, y)])))
    else:
      rules.append(Rule('P', [x][:nkeys], [('best', Agg(op, Arrow(z, y))), ('m', Agg('Max', y))], None, True,
                        Conj([A('W', x, z, y)])))
    K = 3
  elif kind == 'consumer':
    # aggregated predicate read by another rule (as table and as functional value)
    op = rnd.choice(['Sum', 'Min', 'Max', 'Count'])
    rules.append(Rule('P', [x], [], Agg(op, y), False, Conj([A('E', x, y)])))
    if rnd.random() < 0.5:
      rules.append(Rule('Q', [x, v], body=Conj([A('G', x), Cmp('==', v, Call('P', [x], []))])))
    else:
      rules.append(Rule('Q', [x, Bin('+', v, Num(1))], body=Conj([ValAtom('P', [x], [], v), A('F', x, z)])))
  prog = Program(rules, ext=EXT)
  return Case(prog, 'agg', K=K, nullable=nullable, notes=notes)


# ---------------------------------------------------------------- family: rec (C03)

REC_TEMPLATES = ['tc_linear', 'tc_left', 'tc_nonlinear', 'tc_disj', 'same_gen', 'reach_mutual_cut',
                 'three_cycle_flat', 'min_path', 'min_path_w', 'counter', 'counter_distinct',
                 'reach_from', 'two_cycle_flat', 'annot_noncut']


def rec_case(seed, deep=False):
  rnd = random.Random(seed ^ 0x7ec)
  tmpl = REC_TEMPLATES[seed % len(REC_TEMPLATES)] if not deep else (
      ['counter', 'tc_linear', 'reach_from', 'two_cycle_flat', 'counter_distinct', 'ring7', 'ring7', 'reach_from'][seed % 8])
  x, y, z, p, q, n, d = [Var(v) for v in ['x', 'y', 'z', 'p', 'q', 'n', 'd']]
  depth = rnd.choice([1, 2, 3, 2, 3, None]) if not deep else rnd.choice([21, 24, 22])
  rules = []
  mode = 'exact'      # exact: result == T^(depth+1)(empty); contain: T^(d+1) <= result <= T^(c*(d+1))
  cycle = 1
  K = 3
  main = None
  ann = []
  if tmpl == 'tc_linear':
    main = 'TC'
    rules = [Rule('TC', [x, y], distinct=True, body=A('E', x, y)),
             Rule('TC', [x, y], distinct=True, body=Conj([A('TC', x, z), A('E', z, y)]))]
  elif tmpl == 'tc_left':
    main = 'TC'
    rules = [Rule('TC', [x, y], distinct=True, body=A('E', x, y)),
             Rule('TC', [x, y], distinct=True, body=Conj([A('E', x, z), A('TC', z, y)]))]
  elif tmpl == 'tc_nonlinear':
    main = 'TC'
    rules = [Rule('TC', [x, y], distinct=True, body=A('E', x, y)),
             Rule('TC', [x, y], distinct=True, body=Conj([A('TC', x, z), A('TC', z, y)]))]
    if depth is None:
      depth = 3
  elif tmpl == 'tc_disj':
    main = 'TC'
    rules = [Rule('TC', [x, y], distinct=True,
                  body=Disj([A('E', x, y), Conj([A('E', x, z), A('TC', z, y)])]))]
  elif tmpl == 'same_gen':
    main = 'SG'
    rules = [Rule('SG', [x, y], distinct=True, body=Conj([A('E', p, x), A('E', p, y)])),
             Rule('SG', [x, y], distinct=True, body=Conj([A('E', p, x), A('SG', p, q), A('E', q, y)]))]
    K = 2
    if depth is None:
      depth = 2
  elif tmpl == 'reach_mutual_cut':
    # A -> B -> A : the cycle is cut by one predicate => vertical unfolding
    main = 'Ra'
    rules = [Rule('Ra', [x], distinct=True, body=A('G', x)),
             Rule('Ra', [y], distinct=True, body=Conj([A('Rb', x), A('E', x, y)])),
             Rule('Rb', [y], distinct=True, body=Conj([A('Ra', x), A('F', x, y)]))]
    mode = 'contain'
    cycle = 2
    K = 2
    if depth is None:
      depth = 2
  elif tmpl == 'two_cycle_flat':
    # both predicates are self-recursive and mutually recursive: no single cut
    main = 'Ra'
    rules = [Rule('Ra', [x], distinct=True, body=A('G', x)),
             Rule('Ra', [y], distinct=True, body=Conj([A('Rb', x), A('E', x, y)])),
             Rule('Ra', [y], distinct=True, body=Conj([A('Ra', x), A('F', x, y)])),
             Rule('Rb', [y], distinct=True, body=Conj([A('Ra', x), A('F', x, y)])),
             Rule('Rb', [y], distinct=True, body=Conj([A('Rb', x), A('E', x, y)]))]
    K = 2
    if depth is None:
      depth = 2
  elif tmpl == 'three_cycle_flat':
    main = 'Ra'
    rules = [Rule('Ra', [x], distinct=True, body=A('G', x)),
             Rule('Ra', [y], distinct=True, body=Conj([A('Rb', x), A('E', x, y)])),
             Rule('Ra', [y], distinct=True, body=Conj([A('Rc', x), A('F', x, y)])),
             Rule('Rb', [y], distinct=True, body=Conj([A('Ra', x), A('F', x, y)])),
             Rule('Rb', [y], distinct=True, body=Conj([A('Rc', x), A('E', x, y)])),
             Rule('Rc', [y], distinct=True, body=Conj([A('Ra', x), A('E', x, y)])),
             Rule('Rc', [y], distinct=True, body=Conj([A('Rb', x), A('F', x, y)]))]
    K = 2
    if depth is None:
      depth = 2
  elif tmpl == 'min_path':
    main = 'D'
    rules = [Rule('D', [x, y], value=Agg('Min', Num(1)), body=A('E', x, y)),
             Rule('D', [x, y], value=Agg('Min', Bin('+', d, Num(1))),
                  body=Conj([ValAtom('D', [x, z], [], d), A('E', z, y)]))]
    if depth is None:
      depth = 3
  elif tmpl == 'min_path_w':
    main = 'D'
    w = Var('w')
    rules = [Rule('D', [x, y], value=Agg('Min', w), body=A('W', x, y, w)),
             Rule('D', [x, y], value=Agg('Min', Bin('+', d, w)),
                  body=Conj([ValAtom('D', [x, z], [], d), A('W', z, y, w)]))]
    K = 2
    if depth is None:
      depth = 3
  elif tmpl == 'counter':
    main = 'N'
    rules = [Rule('N', [x], body=A('G', x)),
             Rule('N', [Bin('+', n, Num(1))], body=A('N', n))]
    K = 2
  elif tmpl == 'counter_distinct':
    main = 'N'
    rules = [Rule('N', [x], distinct=True, body=A('G', x)),
             Rule('N', [Bin('+', n, Num(2))], distinct=True, body=Conj([A('N', n), Cmp('<', n, Num(rnd.choice([3, 40])))]))]
    K = 2
    if depth is None:
      depth = 3
  elif tmpl == 'annot_noncut':
    # the annotated member (Tm) does not cut the component because Rr also recurses through itself,
    # although another member (Rr) would: the declared depth still governs the whole component
    main = 'Rr'
    rules = [Rule('Rr', [x], distinct=True, body=A('G', x)),
             Rule('Rr', [y], distinct=True, body=Conj([A('Rr', x), A('E', x, y)])),
             Rule('Rr', [y], distinct=True, body=Conj([A('Tm', x), A('F', x, y)])),
             Rule('Tm', [x], distinct=True, body=Conj([A('Rr', x), A('E', x, x) if rnd.random() < 0.5 else A('F', x, y)]))]
    K = 2
    if depth is None:
      depth = rnd.choice([1, 2, 3])
  elif tmpl == 'ring7':
    # a ring of seven predicates with one distant entry point: facts travel round the ring, one
    # predicate per application (iterative plan: the ignition must be long enough for the ring)
    main = 'P0'
    rules = [Rule('P0', [x], distinct=True, body=A('G', x)),
             Rule('P0', [y], distinct=True, body=Conj([A('P6', x), A('E', x, y)]))]
    for i in range(1, 7):
      rules.append(Rule('P%d' % i, [x], distinct=True, body=A('P%d' % (i - 1), x)))
    K = 2
  elif tmpl == 'reach_from':
    main = 'R'
    rules = [Rule('R', [x], distinct=True, body=A('G', x)),
             Rule('R', [y], distinct=True, body=Conj([A('R', x), A('E', x, y)]))]
  if deep:
    K = 2
  depths = {}
  if depth is not None:
    target = main
    if tmpl in ('reach_mutual_cut', 'two_cycle_flat', 'three_cycle_flat') and rnd.random() < 0.5:
      target = 'Rb'     # the annotation may sit on any member of the component
    if tmpl == 'annot_noncut':
      target = 'Tm'
    ann.append('@Recursive(%s, %d);' % (target, depth))
    depths[target] = depth
  prog = Program(rules, ann, ext=EXT)
  c = Case(prog, 'rec', K=K, depths=depths, notes='%s depth=%s' % (tmpl, depth))
  c.rec_mode = mode
  c.cycle = cycle
  c.depth = depth if depth is not None else 8
  c.deep = deep
  return c


def recdeep_case(seed):
  return rec_case(seed, deep=True)


# ---------------------------------------------------------------- family: sugarbase (C11 sites)

def sugarbase_case(seed):
  """programs rich in sites where a documented shorthand applies (incl. nested contexts)."""
  rnd = random.Random(seed ^ 0x5c11)
  x, y, z, u, v, m = [Var(n) for n in 'xyzuvm']
  rules = []
  fbody = rnd.choice([A('E', x, y), A('F', y, x), Conj([A('E', x, z), A('F', z, y)])])
  rules.append(Rule('Fn', [x], value=rnd.choice([y, Bin('+', y, Num(1))]), body=fbody,
                    value_style=rnd.choice(['=', 'logica_value'])))
  kinds = ['neg_call', 'combine_call', 'impl_call', 'multi_rule', 'in_list', 'value_agg',
           'call_chain', 'in_computed', 'call_twice']
  kind = kinds[seed % len(kinds)]     # every kind appears in every 9 consecutive seeds
  c = Num(rnd.choice([0, 1, 2]))
  if kind == 'neg_call':
    pos = rnd.choice([[A('G', y)], [A('E', x, y)]])
    inner = rnd.choice([Cmp('>', Call('Fn', [y], []), c),
                        Conj([A('F', y, z), Cmp('<', Call('Fn', [z], []), c)]),
                        Cmp('==', Call('Fn', [y], []), y)])
    rules.append(Rule('P', [y], body=Conj(pos + [Neg(inner if isinstance(inner, Conj) else Conj([inner]))])))
  elif kind == 'combine_call':
    op = rnd.choice(['Sum', 'Min', 'Max', 'Count'])
    style = rnd.choice(['brace', 'combine', 'concise'])
    body = rnd.choice([[A('E', x, z)], [A('F', z, x)], [A('E', x, z), Cmp('>', Call('Fn', [z], []), c)]])
    agg = AggE(op, rnd.choice([Call('Fn', [z], []), Bin('+', Call('Fn', [z], []), z)]), Conj(body), style)
    rules.append(Rule('P', [x, m], body=Conj([A('G', x), Cmp('==', m, agg)])))
  elif kind == 'impl_call':
    rules.append(Rule('P', [x], body=Conj([A('G', x), Impl(A('E', x, y), Cmp('>', Call('Fn', [y], []), c))])))
  elif kind == 'multi_rule':
    hd = rnd.choice([[x], [x, Bin('+', x, Num(1))]])
    b1 = Conj([A('G', x), rnd.choice([A('E', x, y), Cmp('>', x, c)])])
    b2 = rnd.choice([A('F', x, x), Conj([A('E', x, z), A('G', z)]), Conj([A('F', x, y), Cmp('<', y, c)])])
    b3 = Conj([A('E', y, x), Cmp('==', Call('Fn', [y], []), x)])
    rules.append(Rule('P', hd, body=b1))
    rules.append(Rule('P', hd, body=b2))
    if rnd.random() < 0.5:
      rules.append(Rule('P', hd, body=b3))
    if rnd.random() < 0.5:
      rules.append(Rule('Cnt', [], value=Agg('Sum', Num(1)), body=A('P', *[Var('p%d' % i) for i in range(len(hd))])))
  elif kind == 'in_list':
    lst = ListE([rnd.choice([Num(0), Num(1), y, Bin('+', y, Num(1))]) for _ in range(rnd.randint(1, 3))])
    rules.append(Rule('P', [x, y], body=Conj([A('E', y, z), InP(x, lst)])))
  elif kind == 'in_computed':
    # membership of a computed value (the two-alternatives reading counts equal members twice)
    lst = ListE([rnd.choice([Num(1), y, Bin('+', y, Num(1))]) for _ in range(rnd.randint(1, 2))] + [Bin('+', y, Num(1))])
    rules.append(Rule('P', [z, y], body=Conj([A('E', y, z), InP(Bin('+', z, Num(1)), lst)])))
  elif kind == 'value_agg':
    op = rnd.choice(['Sum', 'Min', 'Max', 'Count'])
    rules.append(Rule('P', [x], value=Agg(op, Call('Fn', [y], [])), body=A('E', x, y)))
    rules.append(Rule('Q', [x, v], body=Conj([A('G', x), Cmp('==', v, Call('P', [x], []))])))
  elif kind == 'call_twice':
    # the same functional call written twice in one rule: two conjuncts, two values
    call = Call('Fn', [x], [])
    if rnd.random() < 0.5:
      rules.append(Rule('P', [x, Bin(rnd.choice(['+', '-']), call, call)], body=A('G', x)))
    else:
      rules.append(Rule('P', [x, y], body=Conj([A('G', x), Cmp('>', call, c), Cmp('==', y, call)])))
  elif kind == 'call_chain':
    rules.append(Rule('P', [x, Bin('+', Call('Fn', [Call('Fn', [x], [])], []), Num(1))], body=A('G', x)))
  prog = Program(rules, ext=EXT)
  return Case(prog, 'sugarbase', K=2, notes=kind)


# ---------------------------------------------------------------- family: exprs (C01, C11)

def exprs_case(seed):
  """`else if` chains whose conditions overlap and whose values repeat, and nested negations over
  propositions with several solutions (added after seeded changes C01-r7 / C11-r7)."""
  rnd = random.Random(seed ^ 0xe7)
  x, y, z, v = Var('x'), Var('y'), Var('z'), Var('v')
  kind = ['if_chain_head', 'double_neg', 'if_chain_body', 'multi_neg'][seed % 4]
  rules = []
  if kind in ('if_chain_head', 'if_chain_body'):
    c1, c2 = rnd.choice([(0, 1), (1, 0), (0, 0), (1, 2)])
    v1, v2 = Num(rnd.choice([10, 7])), rnd.choice([Num(20), Bin('+', x, Num(1))])
    subj = rnd.choice([x, y, Bin('+', x, y)])
    last = rnd.choice([v1, v1, Num(30)])
    chain = If(Cmp('>', subj, Num(c1)), v1, If(Cmp(rnd.choice(['>', '>=']), subj, Num(c2)), v2, last))
    if rnd.random() < 0.4:
      chain = If(Cmp('==', x, y), v2, chain)
    if kind == 'if_chain_head':
      rules.append(Rule('P', [x, y, chain], body=A('E', x, y)))
    else:
      rules.append(Rule('P', [x, v], body=Conj([A('E', x, y), Cmp('==', v, chain), Cmp('!=', v, Num(30))])))
  else:
    inner = rnd.choice([A('E', x, y), A('F', y, x), A('E', x, x)])
    n = Neg(Neg(inner))
    if kind == 'multi_neg':
      n = rnd.choice([Neg(Neg(Neg(inner))), Neg(Neg(Neg(Neg(inner)))), Neg(Neg(Conj([inner, A('G', y)])))])
    rules.append(Rule('P', [x], body=Conj([A('G', x), n])))
  prog = Program(rules, ext=EXT)
  return Case(prog, 'exprs', K=2, notes=kind)


# ---------------------------------------------------------------- fixed witnesses of known findings

def kfc02_case(seed):
  """KF-C02-list-of-nothing: always exercised so that the finding is re-observed each run."""
  x, y, l = Var('x'), Var('y'), Var('l')
  variants = [
      Rule('A', [x, l], body=Conj([A('G', x), Cmp('==', l, AggE('List', y, Conj([A('E', x, y)]), 'brace'))])),
      Rule('A', [x, Size(l)], body=Conj([A('G', x), Cmp('==', l, AggE('List', y, Conj([A('E', x, y)]), 'concise'))])),
  ]
  prog = Program([variants[seed % len(variants)]], ext=EXT)
  return Case(prog, 'kf_witness', K=2, notes='KF-C02-list-of-nothing witness')


# ---------------------------------------------------------------- family: layered (C08 base)

def layered_case(seed):
  """1-3 intermediate predicates (single rule, several rules, distinct, with negation /
  aggregating expressions / in / records inside) and a consumer whose variable names
  collide with the local names used inside the intermediates."""
  rnd = random.Random(seed ^ 0x1a7e)
  names = ['x', 'y', 'v', 'z']
  rules = []
  inter = []
  if rnd.random() < 0.15:
    # table-free consumer: everything it calls is a single-fact (injected) predicate
    c1, c2 = rnd.choice([0, 3, 10]), rnd.choice([1, 5, 10])
    v, w = Var('v'), Var('w')
    rules.append(Rule('I0', [Num(c1)]))
    items = [A('I0', v)]
    intermediates = ['I0']
    if rnd.random() < 0.5:
      rules.append(Rule('I1', [Num(c2), Num(c1 + 1)]))
      items.append(A('I1', w, rnd.choice([v, Var('u')])))
      intermediates.append('I1')
    cond = rnd.choice([Cmp('<', v, Num(5)), Cmp('>', v, Num(c2)), Cmp('!=', v, Num(c1)),
                       Cmp('==', Bin('+', v, Num(1)), Num(c1 + 1))])
    rules.append(Rule('T', [v], body=Conj(items + [cond])))
    prog = Program(rules, ext=EXT)
    c = Case(prog, 'layered', K=1, notes='table_free', tables=['G'])
    c.intermediates = intermediates
    c.check = ['T']
    return c
  n_inter = rnd.randint(1, 3)
  for i in range(n_inter):
    name = 'I%d' % i
    a, b, c = [Var(n) for n in rnd.sample(names, 3)]
    kind = rnd.choice(['join', 'neg_agg', 'neg', 'combine', 'in', 'multi', 'distinct', 'agg', 'cmp',
                       'neg_agg', 'combine', 'rec_field', 'func', 'distinct_join', 'distinct_join'])
    arity = 1
    functional = False
    if kind == 'join':
      rules.append(Rule(name, [a, b], body=Conj([A('E', a, c), A('F', c, b)])))
      arity = 2
    elif kind == 'neg_agg':
      op = rnd.choice(['Sum', 'Max', 'Count', 'Min'])
      inner = AggE(op, b, Conj([A('E', a, b)]), rnd.choice(['brace', 'combine']))
      rules.append(Rule(name, [a], body=Conj([A('G', a), Neg(Conj([Cmp('>', inner, Num(rnd.choice([0, 1, 3])))]))])))
    elif kind == 'neg':
      rules.append(Rule(name, [a], body=Conj([A('G', a), Neg(rnd.choice([A('E', a, b), Conj([A('E', a, b), A('F', b, c)])]))])))
    elif kind == 'combine':
      op = rnd.choice(['Sum', 'Max', 'Min', 'Count'])
      rules.append(Rule(name, [a, c], body=Conj([A('G', a), Cmp('==', c, AggE(op, b, Conj([A('E', a, b)]), rnd.choice(['brace', 'combine', 'concise'])))])))
      arity = 2
    elif kind == 'in':
      rules.append(Rule(name, [a, b], body=Conj([A('G', a), InP(b, ListE([a, Bin('+', a, Num(1))]))])))
      arity = 2
    elif kind == 'multi':
      rules.append(Rule(name, [a], body=A('G', a)))
      rules.append(Rule(name, [a], body=Conj([A('E', a, b), Cmp('>', b, Num(0))])))
    elif kind == 'distinct_join':
      rules.append(Rule(name, [a, b], distinct=True, body=Conj([A('E', a, b), A('G', b)] if rnd.random() < 0.5 else
                                                            [A('E', a, c), A('F', c, b)])))
      arity = 2
    elif kind == 'distinct':
      rules.append(Rule(name, [a], distinct=True, body=A('E', a, b)))
    elif kind == 'agg':
      rules.append(Rule(name, [a], value=Agg(rnd.choice(['Sum', 'Max', 'Min']), b), body=A('E', a, b)))
      functional = True
    elif kind == 'cmp':
      rules.append(Rule(name, [a], body=Conj([A('E', a, b), Cmp(rnd.choice(['<', '>', '!=']), a, b)])))
    elif kind == 'rec_field':
      rules.append(Rule(name, [a, c], body=Conj([A('E', a, b), Cmp('==', Var('r'), RecE([('p', a), ('q', Bin('+', b, Num(1)))])),
                                                 Cmp('==', c, Field(Var('r'), 'q'))])))
      arity = 2
    elif kind == 'func':
      rules.append(Rule(name, [a], value=Bin('+', b, Num(1)), body=A('E', a, b)))
      functional = True
    inter.append((name, arity, functional))
  # consumer(s)
  v1, v2, v3 = [Var(n) for n in rnd.sample(names, 3)]
  items = [rnd.choice([A('G', v1), A('E', v1, v2), A('F', v2, v1)])]
  out = [v1]
  for name, arity, functional in inter:
    if functional:
      if rnd.random() < 0.5:
        items.append(Cmp('==', v3, Call(name, [v1], [])))
      else:
        items.append(ValAtom(name, [v1], [], v3))
      out = [v1, v3]
    elif arity == 1:
      items.append(A(name, v1))
    else:
      items.append(A(name, v1, v2 if rnd.random() < 0.7 else v3))
  if rnd.random() < 0.3:
    items.append(Neg(A('F', v1, v1)))
  if rnd.random() < 0.4:
    # an intermediate read from inside a negation or an aggregating expression of the consumer
    name, arity, functional = inter[rnd.randrange(len(inter))]
    if not functional:
      inner_atom = A(name, v1) if arity == 1 else A(name, v1, Var('q'))
      r = rnd.random()
      if r < 0.4:
        items.append(Neg(inner_atom))
      elif r < 0.7 or arity == 1:
        cnt = Var('cnt')
        items.append(Cmp('==', cnt, AggE('Sum', Num(1) if arity == 1 else Var('q'), Conj([inner_atom]), 'brace')))
        out = out + [cnt]
      else:
        # the outer variable is only compared inside the aggregate (no join on it)
        cnt = Var('cnt')
        items.append(Cmp('==', cnt, AggE('Sum', Var('q'), Conj([A(name, Var('p'), Var('q')), Cmp('>', Var('p'), v1)]), 'brace')))
        out = out + [cnt]
  rules.append(Rule('T', out, body=Conj(items)))
  if rnd.random() < 0.4 and inter:
    # a second consumer reading the first and an intermediate again
    name, arity, functional = inter[0]
    w = Var('w')
    if not functional:
      rules.append(Rule('U', [w], body=Conj([A('T', *([w] + [Var('q%d' % i) for i in range(len(out) - 1)])),
                                             (A(name, w) if arity == 1 else A(name, w, Var('y')))])))
  prog = Program(rules, ext=EXT)
  c = Case(prog, 'layered', K=2, notes='+'.join(n for n, _, _ in inter))
  c.intermediates = [n for n, _, _ in inter] + (['T'] if any(r.pred == 'U' for r in rules) else [])
  c.check = ['T'] + (['U'] if any(r.pred == 'U' for r in rules) else [])
  return c


# ---------------------------------------------------------------- family: orderby (C18)

def orderby_case(seed):
  rnd = random.Random(seed ^ 0xc18)
  x, y, z, s = Var('x'), Var('y'), Var('z'), Var('s')
  body = rnd.choice(['single', 'join', 'multi', 'distinct', 'agg', 'expr', 'multi', 'multi_nil', 'beam', 'functor'])
  rules = []
  cols = ['col0', 'col1']
  pre_ann = []
  depths = {}
  made = None
  if body == 'single':
    rules.append(Rule('O', [x, y], body=A('E', x, y)))
  elif body == 'join':
    rules.append(Rule('O', [x, y], body=Conj([A('E', x, z), A('F', z, y)])))
  elif body == 'multi':
    rules.append(Rule('O', [x, y], body=A('E', x, y)))
    rules.append(Rule('O', [x, y], body=A('F', y, x)))
  elif body == 'distinct':
    rules.append(Rule('O', [x, y], distinct=True, body=A('E', x, y)))
  elif body == 'agg':
    rules.append(Rule('O', [x], [('s', Agg('Sum', y))], distinct=True, body=A('E', x, y)))
    cols = ['col0', 's']
  elif body == 'multi_nil':
    # all but one rule compile to nil: the predicate keeps its clauses
    rules.append(Rule('O', [x, y], body=A('E', x, y)))
    rules.append(Rule('O', [x, y], body=A('nil', x, y)))
  elif body == 'beam':
    # a recursive ordered/limited predicate: every generation is the first K rows of what the
    # rules derive from the previous generation (depth+1 applications from empty)
    d = rnd.choice([1, 2])
    rules.append(Rule('O', [x, y], body=A('E', x, y)))
    rules.append(Rule('O', [y, rnd.choice([Bin('+', z, Num(1)), z, Bin('-', Num(7), z)])],
                      body=Conj([A('O', x, y), A('F', y, z)])))
    pre_ann.append('@Recursive(O, %d);' % d)
    depths['O'] = d
  elif body == 'functor':
    # the ordered/limited predicate sits between a functor and its argument: the clone made by
    # `:=` must keep the clauses
    rules.append(Rule('Src', [x, y], body=A('E', x, y)))
    rules.append(Rule('Alt', [x, y], body=rnd.choice([A('F', x, y), A('F', y, x)])))
    rules.append(Rule('O', [x, y], body=A('Src', x, y)))
    made = 'Src'
  else:
    rules.append(Rule('O', [Bin('+', x, Num(1)), Bin('-', y, x)], body=A('E', x, y)))
  # ordering: one or two keys, asc/desc
  nkeys = rnd.choice([1, 2, 2])
  kcols = rnd.sample(cols, nkeys)
  keys = [(c, rnd.random() < 0.5) for c in kcols]
  limit = rnd.choice([None, 0, 1, 2, 3, 1, 2])
  if rnd.random() < 0.12:
    keys, limit = [], 0      # a limit without any order: only K=0 has a defined meaning
  form = rnd.choice(['annotation', 'denotation', 'annotation_desc_item'])
  ann = []
  if form == 'denotation' and body != 'beam':
    den = (' order_by(%s)' % ', '.join('"%s%s"' % (c, ' desc' if d else '') for c, d in keys)) if keys else ''
    if limit is not None:
      den += ' limit(%d)' % limit
    [r for r in rules if r.pred == 'O'][0].denotation = den
  else:
    if not keys:
      pass
    elif form == 'annotation_desc_item':
      parts = []
      for c, d in keys:
        parts.append('"%s"' % c)
        if d:
          parts.append('"DESC"')
      ann.append('@OrderBy(O, %s);' % ', '.join(parts))
    else:
      ann.append('@OrderBy(O, %s);' % ', '.join('"%s%s"' % (c, ' desc' if d else '') for c, d in keys))
    if limit is not None:
      ann.append('@Limit(O, %d);' % limit)
  # consumers
  ckind = rnd.choice(['project', 'sum', 'join', 'selfjoin', 'two_readers', 'project'])
  if cols[1] == 's':
    def O(a, b):
      return Atom('O', [a], [('s', b)])
  else:
    def O(a, b):
      return Atom('O', [a, b], [])
  if ckind == 'project':
    rules.append(Rule('C', [x], body=O(x, y)))
  elif ckind == 'sum':
    rules.append(Rule('C', [], [('t', Agg('Sum', y)), ('n', Agg('Sum', Num(1)))], distinct=True, body=O(x, y)))
  elif ckind == 'join':
    rules.append(Rule('C', [x, z], body=Conj([O(x, y), A('G', z), Cmp('<=', z, x)])))
  elif ckind == 'selfjoin':
    rules.append(Rule('C', [x, z], body=Conj([O(x, y), O(z, Var('w')), Cmp('<', x, z)])))
  else:
    rules.append(Rule('R1', [x], body=O(x, y)))
    rules.append(Rule('R2', [y], body=O(x, y)))
    rules.append(Rule('C', [x, y], body=Conj([A('R1', x), A('R2', y)])))
  extra = rnd.choice([None, None, '@NoInject(O);', '@With(O);', '@NoWith(O);', '@Ground(O);'])
  if extra and body != 'beam':
    ann.append(extra)
  K = 3 if body in ('single', 'distinct', 'expr', 'agg', 'multi_nil') and ckind not in ('selfjoin', 'two_readers') else 2
  if made:
    # C2 := C(Src: Alt) written by the user; the reference sees the hand-substituted program in
    # which the clones carry the same clauses
    ren = {'Src': 'Alt', 'O': 'O_m', 'C': 'C2', 'R1': 'R1_m', 'R2': 'R2_m'}
    clones = [rename_rule_preds(r, ren) for r in rules if r.pred in ('O', 'C', 'R1', 'R2')]
    user = Program(rules, pre_ann + ann + ['C2 := C(Src: Alt);'], ext=EXT)
    ref_prog = Program(rules + clones, [], ext=EXT)
    c = Case(ref_prog, 'orderby', K=2, notes='%s/%s/%s/limit=%s/%s' % (body, form, ckind, limit, extra))
    c.compile_text = user.text()
    c.order_specs = {'O': (keys, limit), 'O_m': (keys, limit)}
    c.ordered_preds = {'O'}
    c.check = ['O', 'C', 'C2']
    return c
  prog = Program(rules, pre_ann + ann, ext=EXT)
  c = Case(prog, 'orderby', K=K, depths=depths,
           notes='%s/%s/%s/limit=%s/%s' % (body, form, ckind, limit, extra))
  c.order_specs = {'O': (keys, limit)}
  c.ordered_preds = {'O'}
  c.check = ['O', 'C']
  return c


# ---------------------------------------------------------------- family: builtins (C20, SQL-template built-ins)

def builtins_case(seed):
  rnd = random.Random(seed ^ 0xc20)
  x, y, z, i, l = Var('x'), Var('y'), Var('z'), Var('i'), Var('l')
  kind = ['range_in', 'range_size', 'range_elem', 'list_elem', 'list_size', 'in_bool', 'greatest',
          'least', 'arith', 'compare', 'range_neg', 'elem_oob'][seed % 12]
  rules = []
  K = 2
  if kind == 'range_in':
    rules.append(Rule('P', [x, y], body=Conj([A('G', x), InP(y, RangeE(rnd.choice([x, Bin('-', x, Num(1)), Bin('+', x, Num(1))])))])))
  elif kind == 'range_size':
    rules.append(Rule('P', [x, Size(RangeE(x))], body=A('G', x)))
  elif kind == 'range_elem':
    rules.append(Rule('P', [x, y, Elem(RangeE(x), y)], body=A('E', x, y)))
  elif kind == 'range_neg':
    rules.append(Rule('P', [x, Size(RangeE(Bin('-', Num(0), x)))], body=A('G', x)))
    rules.append(Rule('Q', [x], body=Conj([A('G', x), Neg(InP(y, RangeE(x)))])))
  elif kind == 'list_elem':
    items = [rnd.choice([x, y, Num(rnd.randint(0, 5)), Bin('+', x, y)]) for _ in range(rnd.randint(1, 4))]
    rules.append(Rule('P', [x, y, Elem(ListE(items), rnd.choice([y, Num(rnd.randrange(len(items))), Bin('-', y, Num(1))]))],
                      body=A('E', x, y)))
  elif kind == 'elem_oob':
    items = [x, Num(7)]
    rules.append(Rule('P', [x, IsNullE(Elem(ListE(items), x))] if False else [x], body=Conj([A('G', x), IsNull(Elem(ListE(items), x))])))
  elif kind == 'list_size':
    rules.append(Rule('P', [x, Size(ListE([x] * rnd.randint(0, 3)))], body=A('G', x)))
    rules.append(Rule('Q', [x, Size(l)], body=Conj([A('G', x), Cmp('==', l, ListE([]))])))
  elif kind == 'in_bool':
    lst = ListE([rnd.choice([y, Num(rnd.randint(0, 3)), Bin('+', x, Num(1))]) for _ in range(rnd.randint(0, 3))])
    # a bare `(x in l)` conjunct is an inclusion proposition (one solution per equal element, as C11
    # spells out), whatever the parentheses; `in` is a boolean only inside an expression
    rules.append(Rule('P', [x, y], body=Conj([A('E', x, y), rnd.choice([InP(x, lst) if lst.items else BNot(InB(x, lst)),
                                                                       BNot(InB(x, lst)),
                                                                       BOr(InB(x, lst), Cmp('>', y, Num(1)))])])))
  elif kind in ('greatest', 'least'):
    name = 'Greatest' if kind == 'greatest' else 'Least'
    args = [x, y] + ([Num(rnd.randint(-1, 2))] if rnd.random() < 0.5 else [])
    rules.append(Rule('P', [x, y, Builtin(name, args)], body=A('E', x, y)))
  elif kind == 'arith':
    exprs = [Bin('%', x, Num(rnd.choice([2, 3, -3, 5]))), Bin('-', Bin('+', x, y), Bin('*', Num(3), x)),
             Bin('%', Bin('-', x, y), Num(rnd.choice([3, -2]))), UMinus(Bin('-', x, y)),
             Bin('+', Bin('%', x, Num(3)), Bin('%', UMinus(x), Num(3))), Bin('*', Num(-2), Bin('+', x, Num(1))),
             Bin('-', x, UMinus(y))]
    e = exprs[(seed // 12) % len(exprs)]     # every window of four consecutive programs has a remainder
    rules.append(Rule('P', [x, y, e], body=A('E', x, y)))
  else:
    ops = ['==', '!=', '<', '<=', '>', '>=']
    rules.append(Rule('P', [x, y], body=Conj([A('E', x, y), Cmp(rnd.choice(ops), x, rnd.choice([y, Num(0), Bin('+', y, Num(1))]))])))
    rules.append(Rule('Q', [x, If(Cmp(rnd.choice(ops), x, y), Num(1), Num(0))], body=A('E', x, y)))
  prog = Program(rules, ext=EXT)
  return Case(prog, 'builtins', K=K, notes=kind)
