"""The catalogue's own tiny AST for Logica programs, with a renderer to concrete syntax.

This AST is independent of /repo's parser: programs are *built* here, rendered to text
for the real compiler, and given a denotation by refsem.py directly from this AST.
"""


class Node:
  _fields = ()

  def __init__(self, *a):
    assert len(a) == len(self._fields), (type(self).__name__, a)
    for f, v in zip(self._fields, a):
      setattr(self, f, v)

  def __repr__(self):
    return '%s(%s)' % (type(self).__name__, ', '.join(repr(getattr(self, f)) for f in self._fields))

  def __eq__(self, o):
    return type(self) is type(o) and all(getattr(self, f) == getattr(o, f) for f in self._fields)

  def __hash__(self):
    return hash(repr(self))


# ---- expressions
class Var(Node): _fields = ('name',)
class Num(Node): _fields = ('n',)
class Str(Node): _fields = ('s',)
class Null(Node): _fields = ()
class Bin(Node): _fields = ('op', 'a', 'b')          # + - *
class UMinus(Node): _fields = ('e',)                 # unary minus
class Builtin(Node): _fields = ('name', 'args')      # Greatest / Least
class ListE(Node): _fields = ('items',)
class RecE(Node): _fields = ('fields',)              # [(name, expr)]
class Field(Node): _fields = ('e', 'name')
class Elem(Node): _fields = ('e', 'idx')
class Size(Node): _fields = ('e',)
class If(Node): _fields = ('cond', 'a', 'b')
class Call(Node): _fields = ('pred', 'args', 'nargs')  # functional call in an expression
class AggE(Node): _fields = ('op', 'e', 'body', 'style')  # style: brace|combine|concise
class RangeE(Node): _fields = ('e',)
class Arrow(Node): _fields = ('a', 'v')              # a -> v  (for ArgMin/ArgMax)
class Paren(Node): _fields = ('e',)                  # redundant parentheses (layout only)
# ---- boolean expressions / simple propositions
class Cmp(Node): _fields = ('op', 'a', 'b')          # == != < <= > >=  (also '=' sugar)
class BAnd(Node): _fields = ('a', 'b')
class BOr(Node): _fields = ('a', 'b')
class BNot(Node): _fields = ('a',)
class IsNull(Node): _fields = ('e',)
class InB(Node): _fields = ('e', 'l')                # `in` used as boolean expression
# ---- propositions
class Atom(Node): _fields = ('pred', 'args', 'nargs')  # nargs: [(name, expr or None for `a:`)]
class Conj(Node): _fields = ('items',)
class Disj(Node): _fields = ('items',)
class Neg(Node): _fields = ('p',)
class InP(Node): _fields = ('e', 'l')
class Impl(Node): _fields = ('a', 'b')
class ValAtom(Node): _fields = ('pred', 'args', 'nargs', 'value')  # F(x) == v written as call


class Agg(Node): _fields = ('op', 'e')               # aggregated head argument


class Rule:
  def __init__(self, pred, args=(), nargs=(), value=None, distinct=False, body=None,
               value_style='='):
    self.pred = pred
    self.args = list(args)          # exprs
    self.nargs = list(nargs)        # [(name, expr | Agg | None)]  None = `a:` shorthand
    self.value = value              # None | expr | Agg
    self.distinct = distinct
    self.body = body
    self.value_style = value_style  # '=' | 'logica_value'

  def __repr__(self):
    return 'Rule(%s)' % render_rule(self)


class Program:
  def __init__(self, rules, annotations=(), ext=None, engine_line='@Engine("sqlite");'):
    self.rules = list(rules)
    self.annotations = list(annotations)   # raw text lines
    self.ext = dict(ext or {})             # extensional predicate -> [column names]
    self.engine_line = engine_line

  def preds(self):
    out = []
    for r in self.rules:
      if r.pred not in out:
        out.append(r.pred)
    return out

  def rules_of(self, p):
    return [r for r in self.rules if r.pred == p]

  def text(self):
    lines = [self.engine_line] + list(self.annotations)
    lines += [render_rule(r) for r in self.rules]
    return '\n'.join(lines) + '\n'


AGG_OPS = {'Sum': '+', 'Min': 'Min', 'Max': 'Max', 'Count': 'Count', 'List': 'List', 'Set': 'Set',
           'ArgMin': 'ArgMin', 'ArgMax': 'ArgMax'}


def q(s):
  return '"' + s.replace('\\', '\\\\').replace('"', '\\"') + '"'


def rx(e):
  """render expression"""
  if isinstance(e, Var):
    return e.name
  if isinstance(e, Num):
    return str(e.n) if e.n >= 0 else '(%d)' % e.n
  if isinstance(e, Str):
    return q(e.s)
  if isinstance(e, Null):
    return 'null'
  if isinstance(e, Bin):
    return '(%s %s %s)' % (rx(e.a), e.op, rx(e.b))
  if isinstance(e, Builtin):
    return '%s(%s)' % (e.name, ', '.join(rx(a) for a in e.args))
  if isinstance(e, UMinus):
    return '(-%s)' % rx(e.e) if isinstance(e.e, (Bin, Var)) else '(-(%s))' % rx(e.e)
  if isinstance(e, ListE):
    return '[' + ', '.join(rx(x) for x in e.items) + ']'
  if isinstance(e, RecE):
    return '{' + ', '.join('%s: %s' % (k, rx(v)) for k, v in e.fields) + '}'
  if isinstance(e, Field):
    return '%s.%s' % (rx(e.e), e.name)
  if isinstance(e, Elem):
    return 'Element(%s, %s)' % (rx(e.e), rx(e.idx))
  if isinstance(e, Size):
    return 'Size(%s)' % rx(e.e)
  if isinstance(e, If):
    # an `if` in else position is written as the documented `else if` chain (one implication node)
    parts, cur = [], e
    while isinstance(cur, If):
      parts.append('if %s then %s' % (rx(cur.cond), rx(cur.a)))
      cur = cur.b
    return '(%s else %s)' % (' else '.join(parts), rx(cur))
  if isinstance(e, Call):
    return '%s(%s)' % (e.pred, render_args(e.args, e.nargs))
  if isinstance(e, RangeE):
    return 'Range(%s)' % rx(e.e)
  if isinstance(e, Arrow):
    return '%s -> %s' % (rx(e.a), rx(e.v))
  if isinstance(e, Paren):
    return getattr(e, 'style', '(%s)') % rx(e.e)
  if isinstance(e, AggE):
    body = rp(e.body, top=True) if e.body is not None else None
    if e.style == 'brace':
      return '%s{%s :- %s}' % (e.op, rx(e.e), body)
    if e.style == 'combine':
      return '(combine %s= %s :- %s)' % (e.op, rx(e.e), body)
    raise ValueError('concise combine is rendered at proposition level')
  if isinstance(e, Cmp):
    return '(%s %s %s)' % (rx(e.a), e.op, rx(e.b))
  if isinstance(e, BAnd):
    return '(%s && %s)' % (rx(e.a), rx(e.b))
  if isinstance(e, BOr):
    return '(%s || %s)' % (rx(e.a), rx(e.b))
  if isinstance(e, BNot):
    return '(!%s)' % rx(e.a)
  if isinstance(e, IsNull):
    return '(%s is null)' % rx(e.e)
  if isinstance(e, InB):
    return '(%s in %s)' % (rx(e.e), rx(e.l))
  raise TypeError(e)


def render_args(args, nargs):
  parts = [rx(a) for a in args]
  for k, v in nargs:
    if v is None:
      parts.append('%s:' % k)
    elif isinstance(v, Agg):
      parts.append('%s? %s= %s' % (k, '+' if v.op == 'Sum' else v.op, rx(v.e)))
    else:
      parts.append('%s: %s' % (k, rx(v)))
  return ', '.join(parts)


def rp(p, top=False):
  """render proposition"""
  if isinstance(p, Atom):
    return '%s(%s)' % (p.pred, render_args(p.args, p.nargs))
  if isinstance(p, ValAtom):
    return '%s(%s) == %s' % (p.pred, render_args(p.args, p.nargs), rx(p.value))
  if isinstance(p, Conj):
    s = ', '.join(rp(x) for x in p.items)
    return s if top else '(' + s + ')'
  if isinstance(p, Disj):
    if top and getattr(p, 'bare', False):
      # `A, B | C` : disjunction binds weaker than conjunction
      return ' | '.join(rp(x, top=True) for x in p.items)
    s = ' | '.join(rp(x) for x in p.items)
    return '(' + s + ')'
  if isinstance(p, Neg):
    return '~' + (rp(p.p) if isinstance(p.p, (Atom,)) else '(' + rp(p.p, top=True) + ')')
  if isinstance(p, InP):
    return '%s in %s' % (rx(p.e), rx(p.l))
  if isinstance(p, Impl):
    return '(%s => %s)' % (rp(p.a), rp(p.b))
  if isinstance(p, Cmp):
    if isinstance(p.b, AggE) and p.b.style == 'concise':
      body = rp(p.b.body, top=True)
      return '%s %s= (%s :- %s)' % (rx(p.a), p.b.op, rx(p.b.e), body)
    return '%s %s %s' % (rx(p.a), p.op, rx(p.b))
  if isinstance(p, (BAnd, BOr, BNot, IsNull, InB)):
    return rx(p)
  raise TypeError(p)


def render_rule(r):
  head = '%s(%s)' % (r.pred, render_args(r.args, r.nargs))
  if r.value is not None:
    if isinstance(r.value, Agg):
      op = '+' if r.value.op == 'Sum' else r.value.op
      head += ' %s= %s' % (op, rx(r.value.e))
    elif r.value_style == 'logica_value':
      inner = render_args(r.args, r.nargs + [('logica_value', r.value)])
      head = '%s(%s)' % (r.pred, inner)
    else:
      head += ' = %s' % rx(r.value)
  if r.distinct:
    head += ' distinct'
  if getattr(r, 'denotation', None):
    head += r.denotation
  if r.body is None:
    return head + ';'
  return head + ' :- ' + rp(r.body, top=True) + ';'


# ---------------------------------------------------------------- generic traversal

def children(n):
  out = []
  for f in n._fields:
    v = getattr(n, f)
    if isinstance(v, Node):
      out.append(v)
    elif isinstance(v, (list, tuple)):
      for x in v:
        if isinstance(x, Node):
          out.append(x)
        elif isinstance(x, tuple):
          for y in x:
            if isinstance(y, Node):
              out.append(y)
  return out


def mapn(n, fn):
  """rebuild node with fn applied to child nodes (fn returns a node)."""
  vals = []
  for f in n._fields:
    v = getattr(n, f)
    if isinstance(v, Node):
      vals.append(fn(v))
    elif isinstance(v, (list, tuple)):
      nv = []
      for x in v:
        if isinstance(x, Node):
          nv.append(fn(x))
        elif isinstance(x, tuple):
          nv.append(tuple(fn(y) if isinstance(y, Node) else y for y in x))
        else:
          nv.append(x)
      vals.append(nv)
    else:
      vals.append(v)
  return type(n)(*vals)


def variables(n, acc=None):
  acc = acc if acc is not None else []
  if isinstance(n, Var):
    if n.name not in acc:
      acc.append(n.name)
  elif isinstance(n, Atom) or isinstance(n, ValAtom):
    for a in n.args:
      variables(a, acc)
    for k, v in n.nargs:
      if v is None:
        if k not in acc:
          acc.append(k)
      else:
        variables(v, acc)
    if isinstance(n, ValAtom):
      variables(n.value, acc)
  elif isinstance(n, Node):
    for c in children(n):
      variables(c, acc)
  return acc


def rename_vars(n, m):
  if isinstance(n, Var):
    return Var(m.get(n.name, n.name))
  if isinstance(n, (Atom, ValAtom)):
    nargs = []
    for k, v in n.nargs:
      if v is None:
        # `a:` means a: a ; keep the column name, rename the variable
        if m.get(k, k) != k:
          nargs.append((k, Var(m[k])))
        else:
          nargs.append((k, None))
      else:
        nargs.append((k, rename_vars(v, m)))
    args = [rename_vars(a, m) for a in n.args]
    if isinstance(n, ValAtom):
      return ValAtom(n.pred, args, nargs, rename_vars(n.value, m))
    return Atom(n.pred, args, nargs)
  if isinstance(n, Node):
    return mapn(n, lambda c: rename_vars(c, m))
  return n


def rename_rule_vars(r, m):
  def rn(v):
    if v is None:
      return None
    return rename_vars(v, m)
  nargs = []
  for k, v in r.nargs:
    if v is None and m.get(k, k) != k:
      nargs.append((k, Var(m[k])))
    else:
      nargs.append((k, rn(v)))
  return Rule(r.pred, [rn(a) for a in r.args], nargs, rn(r.value), r.distinct,
              rn(r.body), r.value_style)


def rule_vars(r):
  acc = []
  for a in r.args:
    variables(a, acc)
  for k, v in r.nargs:
    if v is None:
      if k not in acc:
        acc.append(k)
    else:
      variables(v, acc)
  if r.value is not None:
    variables(r.value, acc)
  if r.body is not None:
    variables(r.body, acc)
  return acc


def rename_preds(n, m):
  if isinstance(n, Atom):
    return Atom(m.get(n.pred, n.pred), [rename_preds(a, m) for a in n.args],
                [(k, rename_preds(v, m) if v is not None else None) for k, v in n.nargs])
  if isinstance(n, ValAtom):
    return ValAtom(m.get(n.pred, n.pred), [rename_preds(a, m) for a in n.args],
                   [(k, rename_preds(v, m) if v is not None else None) for k, v in n.nargs],
                   rename_preds(n.value, m))
  if isinstance(n, Call):
    return Call(m.get(n.pred, n.pred), [rename_preds(a, m) for a in n.args],
                [(k, rename_preds(v, m) if v is not None else None) for k, v in n.nargs])
  if isinstance(n, Node):
    return mapn(n, lambda c: rename_preds(c, m))
  return n


def rename_rule_preds(r, m):
  def rn(v):
    return None if v is None else rename_preds(v, m)
  return Rule(m.get(r.pred, r.pred), [rn(a) for a in r.args], [(k, rn(v)) for k, v in r.nargs],
              rn(r.value), r.distinct, rn(r.body), r.value_style)


def strings_of(prog):
  acc = []

  def walk(n):
    if isinstance(n, Str):
      acc.append(n.s)
    if isinstance(n, Node):
      for c in children(n):
        walk(c)
  for r in prog.rules:
    for a in r.args:
      walk(a)
    for k, v in r.nargs:
      if v is not None:
        walk(v)
    if r.value is not None:
      walk(r.value)
    if r.body is not None:
      walk(r.body)
  return acc
