"""Encoder self-test on the repository's own inputs (Serval-style): the closed programs
integration_tests/sqlite_*.l are compiled by the real compiler; where the emitted SQL falls
inside E1's subset, the model's (concrete) evaluation must equal real SQLite's rows, and real
SQLite's rendering must equal the committed golden .txt."""
import glob
import os
import z3
from . import real, sqlparse, sqlsem, vals as V, e1
from .vals import Unsupported


def string_constants(sql):
  out = []
  try:
    for kind, val in sqlparse.tokenize(sql):
      if kind == 'str':
        out.append(val)
  except Unsupported:
    pass
  return out


def run(out):
  files = sorted(glob.glob(os.path.join(real.REPO, 'integration_tests', 'sqlite_*.l')))
  stats = {'files': len(files), 'compiled': 0, 'golden_equal': 0, 'encodable': 0, 'model_equal_sqlite': 0,
           'not_encodable': 0, 'skipped': []}
  for f in files:
    name = os.path.basename(f)
    text = open(f).read()
    golden_path = f[:-2] + '.txt'
    try:
      c = real.compile_pred(text, 'Test', import_root=real.REPO)
    except Exception as e:  # noqa: BLE001
      stats['skipped'].append('%s: compile %s' % (name, type(e).__name__))
      continue
    stats['compiled'] += 1
    try:
      rendered = real.sqlite3_logica.RunSqlScript(c.statements(), 'artistictable')
      con = real.connect()
      try:
        hdr, rows = real.run_statements(con, c.statements())
      finally:
        con.close()
    except Exception as e:  # noqa: BLE001
      stats['skipped'].append('%s: sqlite %s' % (name, type(e).__name__))
      continue
    if os.path.exists(golden_path) and open(golden_path).read().strip() == rendered.strip():
      stats['golden_equal'] += 1
    sql = '\n'.join(s if s.rstrip().endswith(';') else s + ';' for s in c.statements() if s.strip())
    try:
      strings = V.Strings(string_constants(sql))
      ctx = sqlsem.Ctx({}, strings, range_bound=12)
      rel = sqlsem.run_script(sqlparse.parse_script(sql), ctx)
      if rel is None:
        raise Unsupported('no final select')
    except Unsupported as e:
      stats['not_encodable'] += 1
      continue
    except RecursionError:
      stats['not_encodable'] += 1
      continue
    stats['encodable'] += 1
    s = z3.Solver()
    s.check()
    m = s.model()
    if not all(z3.is_true(m.eval(V.as_bool(a), model_completion=True)) for a in ctx.assumptions):
      stats['skipped'].append('%s: model assumptions (range bound / ties) not met' % name)
      continue
    model_rows = V.concretize_rel(m, rel, strings)
    same, a, b = e1.compare_concrete(rows, model_rows, e1.col_modes(rel), ordered=rel.ordered)
    if same and hdr == rel.cols:
      stats['model_equal_sqlite'] += 1
    else:
      out.harness_errors.append('corpus self-test %s: model %r != sqlite %r' % (name, b[:5], a[:5]))
  out.coverage['integration_corpus_selftest'] = stats
  return stats
