"""Check driver plumbing: tiers, seeds, evidence files, known findings, exit codes.

Exit codes: 0 held on everything explored (KNOWN-FINDING lines allowed);
            1 VIOLATION (replayed on the real code);
            2 INCONCLUSIVE (too many unknown / not confirmed results);
            3 HARNESS-ERROR (a counterexample that does not reproduce, model/SQLite mismatch).
"""
import json
import os
import shutil
import sys
import tempfile
import time

VERIF = os.path.dirname(os.path.dirname(os.path.abspath(__file__)))
EVIDENCE_DIR = os.environ.get('VERIF_EVIDENCE_DIR') or os.path.join(VERIF, 'evidence')
REPLAY_DIR = os.environ.get('VERIF_REPLAY_DIR') or os.path.join(VERIF, 'replays')
KNOWN_FILE = os.path.join(VERIF, 'known_findings.json')


def tier():
  t = os.environ.get('VERIF_TIER', 'quick')
  return t if t in ('quick', 'thorough') else 'quick'


def seed():
  try:
    return int(os.environ.get('VERIF_SEED', '0'))
  except ValueError:
    return 0


def nproc():
  try:
    return max(1, int(os.environ.get('VERIF_NPROC', str(os.cpu_count() or 4))))
  except ValueError:
    return 4


_scratch = []


def scratch_dir(prefix='logica_verif_'):
  d = tempfile.mkdtemp(prefix=prefix)
  _scratch.append(d)
  return d


def cleanup():
  for d in _scratch:
    shutil.rmtree(d, ignore_errors=True)
  del _scratch[:]


def load_known():
  try:
    with open(KNOWN_FILE) as f:
      return json.load(f)
  except (OSError, ValueError):
    return {'findings': [], 'fixed': []}


class Outcome:
  """Accumulates what a check run saw and turns it into evidence + exit code."""

  def __init__(self, prop, level, t0=None):
    self.prop = prop
    self.level = level
    self.t0 = t0 or time.time()
    self.violations = []      # (description, replay_path)
    self.known = []           # (finding id, description)
    self.inconclusive = []    # strings
    self.hard_inconclusive = []   # results that must be decided for the claim to stand
    self.harness_errors = []  # strings
    self.coverage = {}
    self.assumptions = []
    self.known_spec = [f for f in load_known().get('findings', []) if f.get('property') == prop
                       and f.get('status', 'known') == 'known']

  def violation(self, desc, replay_obj, matcher_facts=None):
    """Report a replayed violation unless it is a listed known finding."""
    from . import findings
    for f in self.known_spec:
      fn = findings.MATCHERS.get(f['matcher'])
      if fn and fn(f, replay_obj, matcher_facts or {}):
        if f['id'] not in [k for k, _ in self.known]:
          self.known.append((f['id'], f['what']))
        return None
    os.makedirs(REPLAY_DIR, exist_ok=True)
    path = os.path.join(REPLAY_DIR, '%s_%d.json' % (self.prop, len(self.violations)))
    with open(path, 'w') as fh:
      json.dump(replay_obj, fh, indent=1, default=repr)
    self.violations.append((desc, path))
    return path

  def finish(self, max_inconclusive_fraction=None, total=None):
    wall = time.time() - self.t0
    ev = {
        'property_id': self.prop,
        'tier': tier(),
        'seed': seed(),
        'level': self.level,
        'coverage': self.coverage,
        'assumptions': self.assumptions,
        'wall_s': round(wall, 2),
        'violations': len(self.violations),
    }
    ev['coverage']['known_findings_hit'] = [k for k, _ in self.known]
    ev['coverage']['inconclusive'] = len(self.inconclusive) + len(self.hard_inconclusive)
    ev['coverage']['inconclusive_samples'] = (self.hard_inconclusive + self.inconclusive)[:5]
    ev['coverage']['harness_errors'] = self.harness_errors[:5]
    os.makedirs(EVIDENCE_DIR, exist_ok=True)
    with open(os.path.join(EVIDENCE_DIR, '%s.json' % self.prop), 'w') as f:
      json.dump(ev, f, indent=1, default=repr)
    for k, what in self.known:
      print('KNOWN-FINDING: property=%s %s [%s]' % (self.prop, what, k))
    code = 0
    if self.violations:
      for desc, path in self.violations:
        print('VIOLATION property=%s replay=%s' % (self.prop, path))
        print('  ' + desc[:500])
      code = 1
    elif self.harness_errors:
      for h in self.harness_errors[:5]:
        print('HARNESS-ERROR property=%s %s' % (self.prop, h[:2000]))
      code = 3
    elif self.hard_inconclusive:
      for h in self.hard_inconclusive[:8]:
        print('INCONCLUSIVE property=%s %s' % (self.prop, h[:500]))
      code = 2
    else:
      inc = len(self.inconclusive)
      if inc and (max_inconclusive_fraction is None or total is None
                  or inc > max_inconclusive_fraction * max(total, 1)):
        for h in self.inconclusive[:5]:
          print('INCONCLUSIVE property=%s %s' % (self.prop, h[:500]))
        code = 2
    print('%s tier=%s seed=%d exit=%d wall=%.1fs %s' % (
        self.prop, tier(), seed(), code, wall,
        json.dumps({k: v for k, v in self.coverage.items()
                    if isinstance(v, (int, float, bool))})))
    cleanup()
    return code
