"""Matchers for known findings (known_findings.json).  A matcher recognises one specific
failing input class; any other violation of the same property is still reported."""


def _cells_differ_only_by(real_rows, expected_rows, pred):
  """the two row lists are equal as multisets once every differing cell pair (real, expected)
  satisfies pred; at least one such pair exists."""
  if len(real_rows) != len(expected_rows):
    return False
  remaining = [list(e) for e in expected_rows]
  hit = False

  def row_ok(r, e):
    if len(r) != len(e):
      return None
    used = False
    for a, b in zip(r, e):
      if a == b or (isinstance(a, (list, tuple)) and isinstance(b, (list, tuple)) and list(a) == list(b)):
        continue
      if pred(a, b):
        used = True
      else:
        return None
    return used
  # exact matches first, then matches that need the allowed deviation
  for want_dev in (False, True):
    for r in list(real_rows):
      if r is None:
        continue
    pending = []
    for r in real_rows:
      found = None
      for i, e in enumerate(remaining):
        ok = row_ok(r, e)
        if ok is not None and ok == want_dev:
          found = i
          break
      if found is None:
        pending.append(r)
      else:
        if want_dev:
          hit = True
        remaining.pop(found)
    real_rows = pending
  return hit and not real_rows and not remaining


def list_of_nothing(finding, replay, facts):
  """C02: List{...} aggregating expression over no solutions gives [] on SQLite where the
  documentation says null.  Matches only when every differing cell is real=[] vs
  expected=null."""
  real_rows = replay.get('real_rows')
  exp = replay.get('expected_rows')
  if real_rows is None or exp is None:
    return False
  if 'List' not in replay.get('program', ''):
    return False
  has_size = 'Size(' in replay.get('program', '')
  return _cells_differ_only_by(
      real_rows, exp,
      lambda a, b: b is None and (a == [] or a == () or (has_size and a == 0)))


MATCHERS = {
    'list_of_nothing': list_of_nothing,
}


def eq_after_expression(finding, replay, facts):
  """C11: `e = v` where the left-hand side is a compound expression whose last
  whitespace-separated token does not start with a lower-case letter (`x + 1 = v`,
  `(a + b) = v`) is taken for a concise combine `x Op= ...` and rejected with 'Could not
  parse expression of a value', while `e == v` is accepted."""
  import re
  if replay.get('kind') != 'one side rejected':
    return False
  if 'sugar_eq' not in (replay.get('label') or ''):
    return False
  if 'Could not parse expression of a value' not in (replay.get('why') or ''):
    return False
  return bool(re.search(r"[0-9)\]] = ", replay.get('program_b', '')))


MATCHERS['eq_after_expression'] = eq_after_expression


def set_arrival_order(finding, replay, facts):
  """C20: only the DistinctListAgg order-of-arrival kernel; the two results must contain the
  same elements (a different content would be another defect)."""
  if replay.get('kernel') != 'k_distinct_list_agg_order':
    return False
  a, b = replay.get('rows_order_ab'), replay.get('rows_order_ba')
  try:
    return sorted(a[0][0]) == sorted(b[0][0]) and a != b
  except Exception:  # noqa: BLE001
    return False


MATCHERS['set_arrival_order'] = set_arrival_order


def sticky_parser_mode(finding, replay, facts):
  """C13: only the parser-mode kernel, and only when the difference is reproduced end to end
  with the incantation program in between."""
  return (replay.get('kernel') == 'k_call_parse_mode_free'
          and replay.get('sql_before') != replay.get('sql_after_incantation_program')
          and replay.get('op') in ('*', '/', '%', '^'))


MATCHERS['sticky_parser_mode'] = sticky_parser_mode


def eq_circular_in(finding, replay, facts):
  """C11: the = form of a program is rejected with the 'circular dependency of In calls'
  diagnostic while the == form compiles; requires an `in` and an injected callee sharing an
  assigned variable name with the caller."""
  import re
  if replay.get('kind') != 'one side rejected' or 'sugar_eq' not in (replay.get('label') or ''):
    return False
  if 'circular dependency of' not in (replay.get('why') or ''):
    return False
  b = replay.get('program_b', '')
  return ' in [' in b and bool(re.search(r"\b(\w+) = ", b))


MATCHERS['eq_circular_in'] = eq_circular_in


def order_dependent_elimination(finding, replay, facts):
  """C07: a program that differs from a compiling original only in the order of conjuncts is
  rejected by the variable elimination of rule_translate.RuleStructure (ElliminateInternalVariables
  / SortUnnestings) with one of its two diagnostics.  Other transformations (renaming, rule or
  disjunct order), other diagnostics, crashes and wrong rows are not covered."""
  if replay.get('kind') != 'one side rejected':
    return False
  label = replay.get('label') or ''
  if not (label.endswith('/conjuncts') or label.endswith('/all')):
    return False
  why = replay.get('why') or ''
  if 'RuleCompileException' not in why:
    return False
  return 'Found no way to assign variables' in why or 'circular dependency of' in why


MATCHERS['order_dependent_elimination'] = order_dependent_elimination


def keyword_needs_blanks(finding, replay, facts):
  """C15: only the always-run witness: a line break directly before the keyword operator `in`
  turns a parsable rule into a ParsingException.  (Inside the whole-program kernels the same class
  is accepted in the harness itself, restricted to ParsingException + line break/tab + position
  adjacent to a keyword; a changed parse is never accepted.)"""
  return (replay.get('kernel') == 'kf_keyword_needs_blanks' and replay.get('outcome') == 'ParsingException'
          and replay.get('same_program_with_a_blank_parses') is True)


MATCHERS['keyword_needs_blanks'] = keyword_needs_blanks
