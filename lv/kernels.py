"""Helpers shared by the CrossHair-based parts of checks: run a set of harness functions,
fold the verdicts into an Outcome, replay counterexamples on the real code."""
import time
from . import kern, framework as fw


def run_kernels(out, title, src, names, timeout, replay_fn=None, expect=None, must_confirm=True,
                extra_args=()):
  """runs CrossHair on harness functions; records coverage under out.coverage['kernels'][title].
  replay_fn(name, args_text) -> (reproduces: bool, description, replay_obj)"""
  t0 = time.time()
  res = kern.check(src, names, timeout=timeout, extra_args=extra_args)
  cov = out.coverage.setdefault('kernels', {})
  summary = {}
  for n in names:
    r = res[n]
    v = r.get('verdict')
    summary[n] = {'verdict': v, 'twin': r.get('twin'), 'seconds': r.get('seconds')}
    if r.get('twin') != 'reachable':
      out.hard_inconclusive.append('%s/%s: reachability twin %s' % (title, n, r.get('twin')))
    if v == 'confirmed':
      continue
    if v == 'counterexample':
      args = kern.counterexample_args(r.get('output', ''))
      if replay_fn is None:
        out.harness_errors.append('%s/%s: counterexample without replay: %s' % (title, n, r.get('output')))
        continue
      try:
        ok, desc, rep = replay_fn(n, args)
      except Exception as e:  # noqa: BLE001
        out.harness_errors.append('%s/%s: replay crashed on %s: %r' % (title, n, args, e))
        continue
      if ok:
        rep = dict(rep or {})
        rep.setdefault('kernel', n)
        rep.setdefault('args', args)
        out.violation('%s/%s(%s): %s' % (title, n, args, desc), rep)
      else:
        out.harness_errors.append('%s/%s: counterexample %s does not reproduce: %s' % (title, n, args, desc))
    elif must_confirm:
      out.hard_inconclusive.append('%s/%s: CrossHair %s in %ss: %s' % (title, n, v, r.get('seconds'), r.get('output', '')[-200:]))
  cov[title] = {'functions': summary, 'wall_s': round(time.time() - t0, 1),
                'per_condition_timeout_s': timeout}
  return res
