"""C17: histories of CLI-style runs against one persistent attached database."""
import os
import shutil
import sqlite3
import tempfile
from . import real, sqlparse, sqlsem, e1, db as dbm, vals as V
from .vals import Unsupported

DB_PLACEHOLDER = '/tmp/logica_verif_c17_home.db'   # only ever opened by replays, under a fresh name
DB_PLACEHOLDER2 = '/tmp/logica_verif_c17_store.db'  # a second attached database file


class HistorySide:
  """Runs `logica.py <prog> run <p>` for each p in history, one after another, against the
  same attached database.  `want` = ('rows', None): rows of the last run;
  ('table', name): contents of a table of the attached database after the history."""

  def __init__(self, text, history, want=('rows', None), label='', forbid_write=None):
    self.forbid_write = forbid_write
    self.text = text
    self.history = list(history)
    self.want = want
    self.label = label
    self.pred = '%s@%s' % ('>'.join(self.history), want[1] or 'rows')
    self.workflow = False
    self.preds = self.history

  def build(self, D, strings, range_bound, compaction):
    store = D.store()
    self.scripts = []
    rel = None
    assumptions = []
    for p in self.history:
      c = real.compile_pred(self.text, p)
      # the texts the real RunSqlScript would pass to SQLite (its own joining / splitting)
      sql = '\n'.join(s if s.rstrip().endswith(';') else s + ';' for _k, s in real.executed_texts(c.statements()) if s.strip())
      self.scripts.append(c.statements())
      ctx = sqlsem.Ctx(store, strings, range_bound, compaction)
      rel = sqlsem.run_script(sqlparse.parse_script(sql), ctx)
      assumptions += ctx.assumptions
      if self.forbid_write and p == self.history[-1]:
        written = [n[1] for n in ctx.notes if n[0] in ('create', 'drop')]
        if self.forbid_write in written:
          raise WriteByPrint('running %s itself emits %s on %s' % (p, [n for n in ctx.notes], self.forbid_write))
      # what persists: the attached database (qualified names) and the extensional tables
      store = sqlsem.persisting_store(ctx)
    self.final_store = store
    if self.want[0] == 'table':
      # the table is looked for in the database *file* the program attaches
      key = '%s::%s' % (self.want[2] if len(self.want) > 2 else DB_PLACEHOLDER, self.want[1].split('.')[-1])
      if key not in store:
        raise TableMissing(self.want[1])
      rel = store[key]
    self.rel = rel
    self.assumptions = assumptions
    self.sql = '\n'.join('\n'.join(s) for s in self.scripts)
    self.statements = [st for s in self.scripts for st in s]
    return self

  def run_real(self, schema, rows):
    d = tempfile.mkdtemp(prefix='logica_verif_c17_')
    try:
      path = os.path.join(d, 'home.db')
      path2 = os.path.join(d, 'store.db')
      text = self.text.replace(DB_PLACEHOLDER, path).replace(DB_PLACEHOLDER2, path2)
      con = sqlite3.connect(path)
      dbm.load_sqlite(con, schema, rows)
      con.close()
      out = None
      for p in self.history:
        c = real.compile_pred(text, p)
        con = real.connect()
        try:
          out = real.run_statements(con, c.statements())
          con.commit()
        finally:
          con.close()
      if self.want[0] == 'table':
        con = sqlite3.connect(path2 if (len(self.want) > 2 and self.want[2] == DB_PLACEHOLDER2) else path)
        try:
          name = self.want[1].split('.')[-1]
          try:
            cur = con.execute('SELECT * FROM %s' % name)
          except sqlite3.OperationalError as e:
            return ['<missing table %s>' % name], []
          hdr = [x[0] for x in cur.description]
          out = hdr, [tuple(real.normalise_cell(c) for c in r) for r in cur.fetchall()]
        finally:
          con.close()
      return out
    finally:
      shutil.rmtree(d, ignore_errors=True)


class TableMissing(Unsupported):
  pass


class WriteByPrint(Exception):
  pass
