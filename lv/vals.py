"""Value algebra shared by the SQL model (sqlsem) and the reference evaluator (refsem).

Everything is a z3 term or a Python constant (constants are folded eagerly so that
terms stay small).  A *relation* is a list of guarded slots; multiplicities are
represented by repeated slots, never by counters, so no non-linear arithmetic arises.

Kinds of values
  S  scalar: (null, v, kind) with kind in {'int','str','bool'}; strings are interned
     program constants (ids ordered like the strings themselves)
  L  list:   (null, items=[(guard, value)], mode) mode in {'seq','bag','set'}
  R  record: (null, fields={name: value})
"""
import itertools
import z3

# ---------------------------------------------------------------- boolean folding

def isc(x):
  """Is x a Python constant (bool/int)?"""
  return isinstance(x, (bool, int))


def AND(*xs):
  out = []
  for x in xs:
    if x is True:
      continue
    if x is False:
      return False
    out.append(x)
  if not out:
    return True
  if len(out) == 1:
    return out[0]
  return z3.And(*out)


def OR(*xs):
  out = []
  for x in xs:
    if x is False:
      continue
    if x is True:
      return True
    out.append(x)
  if not out:
    return False
  if len(out) == 1:
    return out[0]
  return z3.Or(*out)


def NOT(x):
  if x is True:
    return False
  if x is False:
    return True
  return z3.Not(x)


def ITE(c, a, b):
  if c is True:
    return a
  if c is False:
    return b
  if isc(a) and isc(b) and a == b and type(a) == type(b):
    return a
  if isinstance(a, bool) and isinstance(b, bool):
    return c if a else NOT(c)
  if isinstance(a, bool):
    a = z3.BoolVal(a)
  if isinstance(b, bool):
    b = z3.BoolVal(b)
  if not isc(a) and not isc(b) and a.eq(b):
    return a
  return z3.If(c, a, b)


def EQ(a, b):
  if isc(a) and isc(b):
    return a == b
  if not isc(a) and not isc(b) and a.eq(b):
    return True
  return a == b


def LT(a, b):
  if isc(a) and isc(b):
    return a < b
  return a < b


def LE(a, b):
  if isc(a) and isc(b):
    return a <= b
  return a <= b


def IMPLIES(a, b):
  return OR(NOT(a), b)


def SUM(xs):
  xs = list(xs)
  c = sum(x for x in xs if isc(x))
  rest = [x for x in xs if not isc(x)]
  if not rest:
    return c
  if c != 0:
    rest.append(z3.IntVal(c))
  if len(rest) == 1:
    return rest[0]
  return z3.Sum(rest)


def B2I(b):
  """Bool -> 0/1."""
  if b is True:
    return 1
  if b is False:
    return 0
  return z3.If(b, 1, 0)


def trunc_rem(x, c):
  """x % c with the sign of the dividend (SQL MOD / SQLite %), c a non-zero Python int"""
  c = abs(int(c))
  if isc(x):
    x = int(x)
    return (x % c) if x >= 0 else -((-x) % c)
  import z3 as _z3
  return _z3.If(x >= 0, x % c, -((-x) % c))


def as_bool(x):
  if isinstance(x, bool):
    return z3.BoolVal(x)
  return x


def as_int(x):
  if isinstance(x, int) and not isinstance(x, bool):
    return z3.IntVal(x)
  return x


class Unsupported(Exception):
  """Construct outside the modelled subset: the program is 'not encodable'."""


SLOT_LIMIT = [400]


def check_budget(n):
  if n > SLOT_LIMIT[0]:
    raise Unsupported('slot budget exceeded (%d > %d)' % (n, SLOT_LIMIT[0]))


# ---------------------------------------------------------------- interned strings

class Strings:
  """Program string constants -> ints, order preserving (so <, MIN, MAX work)."""

  def __init__(self, consts=()):
    # 'singleton' is the dummy FROM item the compiler emits for table-free rules
    self.consts = sorted(set(consts) | {'singleton'})

  def id(self, s):
    if s not in self.consts:
      raise Unsupported('string constant %r not interned' % (s,))
    return self.consts.index(s)

  def text(self, i):
    return self.consts[i]


# ---------------------------------------------------------------- values

class S:
  __slots__ = ('null', 'v', 'kind')

  def __init__(self, v, kind='int', null=False):
    self.v = v
    self.kind = kind
    self.null = null

  def __repr__(self):
    return 'S(%s,%s,null=%s)' % (self.v, self.kind, self.null)


class L:
  __slots__ = ('null', 'items', 'mode')

  def __init__(self, items, mode='seq', null=False):
    self.items = list(items)  # [(guard, value)]
    self.mode = mode
    self.null = null


class R:
  __slots__ = ('null', 'fields')

  def __init__(self, fields, null=False):
    self.fields = dict(fields)
    self.null = null


NULL = S(0, 'int', True)


def null_like(v):
  if isinstance(v, S):
    return S(0, v.kind, True)
  if isinstance(v, L):
    return L([], v.mode, True)
  if isinstance(v, R):
    return R({k: null_like(x) for k, x in v.fields.items()}, True)
  raise TypeError(v)


class B:
  """SQL three-valued boolean."""
  __slots__ = ('null', 'v')

  def __init__(self, v, null=False):
    self.v = v
    self.null = null

  def true(self):
    return AND(NOT(self.null), self.v)

  def false(self):
    return AND(NOT(self.null), NOT(self.v))


def b_and(a, b):
  # Kleene: false dominates
  f = OR(a.false(), b.false())
  t = AND(a.true(), b.true())
  return B(t, AND(NOT(f), NOT(t)))


def b_or(a, b):
  t = OR(a.true(), b.true())
  f = AND(a.false(), b.false())
  return B(t, AND(NOT(f), NOT(t)))


def b_not(a):
  return B(NOT(a.v), a.null)


def to_B(x):
  """Value used as a condition (SQLite: non-zero integer is true)."""
  if isinstance(x, B):
    return x
  if isinstance(x, S):
    if x.kind == 'bool':
      return B(x.v if isinstance(x.v, bool) or z3.is_bool(x.v) else x.v != 0, x.null)
    if x.kind == 'int':
      return B(NOT(EQ(x.v, 0)), x.null)
  raise Unsupported('condition of non-scalar kind')


def to_S(x):
  """Condition used as a value (SQLite booleans are 0/1)."""
  if isinstance(x, B):
    return S(B2I(x.v), 'int', x.null)
  return x


def kinds_compatible(a, b):
  ka = 'int' if a.kind == 'bool' else a.kind
  kb = 'int' if b.kind == 'bool' else b.kind
  return ka == kb


def _num(x):
  """payload of scalar as Int term (bool kind -> 0/1)."""
  if x.kind == 'bool':
    if isinstance(x.v, bool) or (not isc(x.v) and z3.is_bool(x.v)):
      return B2I(x.v)
  return x.v


def cmp_sql(op, a, b):
  """SQL comparison of two values -> B (null if either is null)."""
  a = to_S(a)
  b = to_S(b)
  if isinstance(a, S) and isinstance(b, S):
    null = OR(a.null, b.null)
    # a statically-null operand decides the result; kinds need not agree then
    if a.null is True or b.null is True:
      return B(False, True)
    if not kinds_compatible(a, b):
      raise Unsupported('comparison across kinds %s/%s' % (a.kind, b.kind))
    x, y = _num(a), _num(b)
    if op in ('=', '=='):
      v = EQ(x, y)
    elif op in ('!=', '<>'):
      v = NOT(EQ(x, y))
    elif op == '<':
      v = LT(x, y)
    elif op == '<=':
      v = LE(x, y)
    elif op == '>':
      v = LT(y, x)
    elif op == '>=':
      v = LE(y, x)
    else:
      raise Unsupported('comparison ' + op)
    return B(v, null)
  if op in ('=', '==', '!=', '<>'):
    # structured values: JSON text equality.  Only 'seq' lists and records compare
    # reliably as text; bags/sets have no canonical text.
    _require_textual(a)
    _require_textual(b)
    e = ident(a, b)
    null = OR(a.null, b.null)
    return B(e if op in ('=', '==') else NOT(e), null)
  raise Unsupported('ordering of structured values')


def _require_textual(v):
  if isinstance(v, L):
    if v.mode != 'seq':
      raise Unsupported('equality on unordered list')
    for _, x in v.items:
      _require_textual(x)
  elif isinstance(v, R):
    for x in v.fields.values():
      _require_textual(x)


def ident(a, b):
  """Row identity: nulls are identical to nulls; structural otherwise -> z3 Bool."""
  a = to_S(a)
  b = to_S(b)
  if isinstance(a, S) and isinstance(b, S):
    if a.null is True and b.null is True:
      return True
    if a.null is True:
      return as_true(b.null)
    if b.null is True:
      return as_true(a.null)
    if not kinds_compatible(a, b):
      raise Unsupported('identity across kinds %s/%s' % (a.kind, b.kind))
    return OR(AND(a.null, b.null),
              AND(NOT(a.null), NOT(b.null), EQ(_num(a), _num(b))))
  if isinstance(a, S) and a.null is True:
    return as_true(b.null)
  if isinstance(b, S) and b.null is True:
    return as_true(a.null)
  if isinstance(a, R) and isinstance(b, R):
    if set(a.fields) != set(b.fields):
      return AND(a.null, b.null)
    inner = AND(*[ident(a.fields[k], b.fields[k]) for k in sorted(a.fields)])
    return OR(AND(a.null, b.null), AND(NOT(a.null), NOT(b.null), inner))
  if isinstance(a, L) and isinstance(b, L):
    return OR(AND(a.null, b.null), AND(NOT(a.null), NOT(b.null), list_ident(a, b)))
  raise Unsupported('identity between different shapes')


def as_true(x):
  return x


def list_ident(a, b):
  mode = a.mode if a.mode == b.mode else ('bag' if 'set' not in (a.mode, b.mode) else 'set')
  if mode == 'seq':
    # positional; guards make positions dynamic: element p of a list is the p-th
    # present item.  Fast path: all guards constant True.
    if all(g is True for g, _ in a.items) and all(g is True for g, _ in b.items):
      if len(a.items) != len(b.items):
        return False
      return AND(*[ident(x, y) for (_, x), (_, y) in zip(a.items, b.items)])
    # general case: same length and the i-th present of a equals the j-th present of b
    # whenever rank_a(i) == rank_b(j)
    ra = ranks(a.items)
    rb = ranks(b.items)
    conds = [EQ(SUM(B2I(g) for g, _ in a.items), SUM(B2I(g) for g, _ in b.items))]
    for (ga, xa), r1 in zip(a.items, ra):
      for (gb, xb), r2 in zip(b.items, rb):
        conds.append(IMPLIES(AND(ga, gb, EQ(r1, r2)), ident(xa, xb)))
    return AND(*conds)
  if mode == 'bag':
    conds = []
    for g, x in list(a.items) + list(b.items):
      ca = SUM(B2I(AND(g2, ident(x, y))) for g2, y in a.items)
      cb = SUM(B2I(AND(g2, ident(x, y))) for g2, y in b.items)
      conds.append(IMPLIES(g, EQ(ca, cb)))
    return AND(*conds)
  # set
  conds = []
  for g, x in a.items:
    conds.append(IMPLIES(g, OR(*[AND(g2, ident(x, y)) for g2, y in b.items])))
  for g, x in b.items:
    conds.append(IMPLIES(g, OR(*[AND(g2, ident(x, y)) for g2, y in a.items])))
  return AND(*conds)


def ranks(items):
  """rank of item i among present items = number of present items before it."""
  out = []
  acc = 0
  for g, _ in items:
    out.append(acc)
    acc = SUM([acc, B2I(g)])
  return out


def ite_val(c, a, b):
  """if c then a else b on values (shapes must agree, a null scalar adapts)."""
  if c is True:
    return a
  if c is False:
    return b
  a = to_S(a)
  b = to_S(b)
  if isinstance(a, S) and a.null is True and not isinstance(b, S):
    a = null_like(b)
  if isinstance(b, S) and b.null is True and not isinstance(a, S):
    b = null_like(a)
  if isinstance(a, S) and isinstance(b, S):
    if a.null is True:
      kind = b.kind
    elif b.null is True:
      kind = a.kind
    else:
      if not kinds_compatible(a, b):
        raise Unsupported('if-then-else across kinds')
      kind = a.kind if a.kind == b.kind else 'int'
    av = _num(a) if kind == 'int' else a.v
    bv = _num(b) if kind == 'int' else b.v
    if kind == 'bool':
      av, bv = as_boolish(av), as_boolish(bv)
    return S(ITE(c, av, bv), kind, ITE(c, a.null, b.null))
  if isinstance(a, R) and isinstance(b, R) and set(a.fields) == set(b.fields):
    return R({k: ite_val(c, a.fields[k], b.fields[k]) for k in a.fields},
             ITE(c, a.null, b.null))
  if isinstance(a, L) and isinstance(b, L):
    mode = a.mode if a.mode == b.mode else 'bag'
    if (mode == 'seq' and len(a.items) == len(b.items)
        and all(g is True for g, _ in a.items + b.items)):
      return L([(True, ite_val(c, x, y)) for (_, x), (_, y) in zip(a.items, b.items)],
               'seq', ITE(c, a.null, b.null))
    if mode == 'seq':
      raise Unsupported('if-then-else over sequences of different shapes')
    items = [(AND(c, g), x) for g, x in a.items] + [(AND(NOT(c), g), x) for g, x in b.items]
    return L(items, mode, ITE(c, a.null, b.null))
  raise Unsupported('if-then-else over different shapes')


def as_boolish(v):
  if isinstance(v, bool):
    return v
  if isinstance(v, int):
    return v != 0
  if z3.is_bool(v):
    return v
  return v != 0


# ---------------------------------------------------------------- relations

class Rel:
  """cols: list of column names; slots: [(guard, [values])]; ordered: whether slot
  order is meaningful (after ORDER BY)."""

  def __init__(self, cols, slots, ordered=False, distinct=False):
    self.cols = list(cols)
    self.slots = list(slots)
    self.ordered = ordered
    self.distinct = distinct   # known duplicate free

  def col(self, name):
    return self.cols.index(name)


def row_ident(r1, r2):
  return AND(*[ident(a, b) for a, b in zip(r1, r2)])


def multiset_diff(A, B):
  """z3 Bool: the two slot lists differ as multisets.  (Asserting this and getting
  unsat proves equality.)"""
  if len(A.cols) != len(B.cols):
    return True
  if A.distinct and B.distinct:
    # mutual inclusion is enough
    ds = []
    for g, r in A.slots:
      ds.append(AND(g, NOT(OR(*[AND(g2, row_ident(r, r2)) for g2, r2 in B.slots]))))
    for g, r in B.slots:
      ds.append(AND(g, NOT(OR(*[AND(g2, row_ident(r, r2)) for g2, r2 in A.slots]))))
    return OR(*ds)
  ds = []
  for g, r in list(A.slots) + list(B.slots):
    if g is False:
      continue
    ca = SUM(B2I(AND(g2, row_ident(r, r2))) for g2, r2 in A.slots if g2 is not False)
    cb = SUM(B2I(AND(g2, row_ident(r, r2))) for g2, r2 in B.slots if g2 is not False)
    ds.append(AND(g, NOT(EQ(ca, cb))))
  return OR(*ds)


def sequence_diff(A, B):
  """z3 Bool: the two slot lists differ as sequences of present rows."""
  la = L([(g, R({str(i): v for i, v in enumerate(r)})) for g, r in A.slots], 'seq')
  lb = L([(g, R({str(i): v for i, v in enumerate(r)})) for g, r in B.slots], 'seq')
  return NOT(list_ident(la, lb))


# ---------------------------------------------------------------- aggregates over a group
# A group is a list of (guard, value) where guard already includes membership.

def agg_sum(members):
  ms = [(AND(g, NOT(x.null)), x) for g, x in members]
  any_ = OR(*[g for g, _ in ms])
  tot = SUM(ITE(g, _num(x), 0) for g, x in ms if g is not False)
  return S(tot, 'int', NOT(any_))


def agg_minmax(members, is_min):
  ms = [(AND(g, NOT(x.null)), x) for g, x in members]
  ms = [(g, x) for g, x in ms if g is not False]
  if not ms:
    return NULL
  kind = ms[0][1].kind
  has = False
  acc = 0
  for g, x in ms:
    xv = _num(x)
    better = OR(NOT(has), LT(xv, acc) if is_min else LT(acc, xv))
    take = AND(g, better)
    acc = ITE(take, xv, acc)
    has = OR(has, g)
  return S(acc, 'int' if kind == 'bool' else kind, NOT(has))


def agg_count_distinct(members):
  ms = [(AND(g, NOT(x.null)), x) for g, x in members]
  ms = [(g, x) for g, x in ms if g is not False]
  terms = []
  for i, (g, x) in enumerate(ms):
    first = AND(g, NOT(OR(*[AND(g2, ident(x, y)) for g2, y in ms[:i]])))
    terms.append(B2I(first))
  return S(SUM(terms), 'int', False)


def agg_count(members):
  ms = [AND(g, NOT(x.null)) for g, x in members]
  return S(SUM(B2I(g) for g in ms), 'int', False)


def agg_list(members):
  # SQLite JSON_GROUP_ARRAY keeps nulls (as JSON null); the result on no rows is '[]'
  # for a GROUP BY query there is always >=1 row in a group.
  return L([(g, x) for g, x in members if g is not False], 'bag', False)


def agg_set(members):
  ms = [(g, x) for g, x in members if g is not False]
  out = []
  for i, (g, x) in enumerate(ms):
    first = AND(g, NOT(OR(*[AND(g2, ident(x, y)) for g2, y in ms[:i]])))
    out.append((first, x))
  # the Python UDF DistinctListAgg is never instantiated on an empty input: NULL
  return L(out, 'set', NOT(OR(*[g for g, _ in ms])))


def agg_argbest(members, is_min, limit):
  """members: [(guard, arg, value)].  k-best arguments ordered by value.  Only defined
  when values of present members are pairwise distinct (tie assumption is collected by
  the caller through `tie_free`).  limit None = all."""
  ms = [(g, a, v) for g, a, v in members if g is not False]
  n = len(ms)
  k = n if limit is None else min(limit, n)
  # rank of member i = number of present members that come strictly before it
  rk = []
  for i, (g, a, v) in enumerate(ms):
    cnt = []
    for j, (g2, a2, v2) in enumerate(ms):
      if i == j:
        continue
      before = LT(_num(v2), _num(v)) if is_min else LT(_num(v), _num(v2))
      cnt.append(B2I(AND(g2, before)))
    rk.append(SUM(cnt))
  items = []
  for p in range(k):
    guard = OR(*[AND(g, EQ(r, p)) for (g, a, v), r in zip(ms, rk)])
    val = None
    for (g, a, v), r in reversed(list(zip(ms, rk))):
      val = a if val is None else ite_val(AND(g, EQ(r, p)), a, val)
    items.append((guard, val))
  # the Python UDF aggregate is never instantiated on an empty input: SQLite returns NULL
  return L(items, 'seq', NOT(OR(*[g for g, a, v in ms])))


def tie_free(members):
  """assumption: present members have pairwise distinct non-null values."""
  ms = [(g, v) for g, v in members if g is not False]
  conds = []
  for i in range(len(ms)):
    conds.append(IMPLIES(ms[i][0], NOT(ms[i][1].null)))
    for j in range(i):
      conds.append(IMPLIES(AND(ms[i][0], ms[j][0]), NOT(EQ(_num(ms[i][1]), _num(ms[j][1])))))
  return AND(*conds)


def list_size(l):
  return S(SUM(B2I(g) for g, _ in l.items), 'int', l.null)


def list_element(l, idx):
  """Element(l, idx) with idx a scalar; null when out of range."""
  if not isinstance(l, L):
    raise Unsupported('Element of non-list')
  if l.mode != 'seq':
    raise Unsupported('Element of unordered list')
  if not l.items:
    return S(0, 'int', True)
  rk = ranks(l.items)
  out = None
  hit = False
  for (g, x), r in reversed(list(zip(l.items, rk))):
    c = AND(g, EQ(r, idx.v))
    out = x if out is None else ite_val(c, x, out)
    hit = OR(hit, c)
  nullv = null_like(out)
  res = ite_val(AND(hit, NOT(l.null), NOT(idx.null)), out, nullv)
  return res


def in_list(x, l):
  return B(OR(*[AND(g, NOT(y.null), NOT(x.null), EQ(_num(x), _num(y))) for g, y in l.items]),
           OR(x.null, l.null))


# ---------------------------------------------------------------- grouping

def cell_terms(vals):
  """distinct z3 leaf terms in a column (None if some value is not a plain non-null
  variable/constant term)."""
  out = []
  for v in vals:
    if not isinstance(v, S) or v.null is not False:
      return None
    t = v.v
    if isc(t):
      key = ('c', t)
    elif z3.is_const(t):
      key = ('t', t.get_id())
    else:
      return None
    if key not in [k for k, _ in out]:
      out.append((key, v))
  return [v for _, v in out]


def group_slots(slots, keys, compaction=True):
  """slots: [(guard, payload)], keys: [[key values]] per slot.
  Returns [(rep_guard, key_values, members)] where members = [(in_group_guard, payload)].
  Chooses between representative encoding (one output slot per input slot) and combo
  encoding over extensional cell terms (domain compaction) when that is smaller."""
  n = len(slots)
  nk = len(keys[0]) if keys else 0
  live = [i for i in range(n) if slots[i][0] is not False]
  if compaction and nk > 0 and len(live) > 0:
    cands = []
    for c in range(nk):
      ct = cell_terms([keys[i][c] for i in live])
      if ct is None:
        cands = None
        break
      cands.append(ct)
    if cands is not None:
      ncombo = 1
      for c in cands:
        ncombo *= len(c)
      if ncombo < len(live):
        out = []
        combos = list(itertools.product(*cands))
        for ci, combo in enumerate(combos):
          members = []
          for i in live:
            g = slots[i][0]
            same = AND(*[EQ(keys[i][c].v, combo[c].v) for c in range(nk)])
            members.append((AND(g, same), slots[i][1]))
          exists = OR(*[g for g, _ in members])
          dup = OR(*[AND(*[EQ(combos[cj][c].v, combo[c].v) for c in range(nk)])
                     for cj in range(ci)])
          out.append((AND(exists, NOT(dup)), list(combo), members))
        return out
  out = []
  for ii, i in enumerate(live):
    g = slots[i][0]
    earlier = []
    for j in live[:ii]:
      earlier.append(AND(slots[j][0], row_ident(keys[i], keys[j])))
    rep = AND(g, NOT(OR(*earlier)))
    members = []
    for j in live:
      if j == i:
        members.append((g, slots[j][1]))
      else:
        members.append((AND(slots[j][0], row_ident(keys[i], keys[j])), slots[j][1]))
    out.append((rep, keys[i], members))
  return out


# ---------------------------------------------------------------- concretisation

def concretize(model, v, strings=None):
  """Value -> Python object under a z3 model."""
  def ev(t):
    if isinstance(t, bool):
      return t
    if isinstance(t, int):
      return t
    r = model.eval(t, model_completion=True)
    if z3.is_true(r):
      return True
    if z3.is_false(r):
      return False
    return r.as_long()
  v = to_S(v)
  if ev(v.null):
    return None
  if isinstance(v, S):
    x = ev(v.v)
    if v.kind == 'str':
      return strings.text(x) if strings else ('str#%d' % x)
    if v.kind == 'bool':
      return int(bool(x))
    return int(x)
  if isinstance(v, R):
    return {k: concretize(model, x, strings) for k, x in v.fields.items()}
  if isinstance(v, L):
    items = [concretize(model, x, strings) for g, x in v.items if ev(g)]
    if v.mode != 'seq':
      items = sorted(items, key=repr)
      if v.mode == 'set':
        ded = []
        for x in items:
          if x not in ded:
            ded.append(x)
        items = ded
    return items
  raise TypeError(v)


def concretize_rel(model, rel, strings=None):
  def ev(t):
    if isinstance(t, bool):
      return t
    return z3.is_true(model.eval(t, model_completion=True))
  rows = []
  for g, r in rel.slots:
    if ev(g):
      rows.append(tuple(freeze(concretize(model, v, strings)) for v in r))
  return rows


def freeze(x):
  if isinstance(x, list):
    return tuple(freeze(y) for y in x)
  if isinstance(x, dict):
    return tuple(sorted((k, freeze(v)) for k, v in x.items()))
  return x


def subset_violation(A, B):
  """z3 Bool: some present row of A has no identical present row in B (set inclusion)."""
  if len(A.cols) != len(B.cols):
    return True
  ds = []
  for g, r in A.slots:
    if g is False:
      continue
    ds.append(AND(g, NOT(OR(*[AND(g2, row_ident(r, r2)) for g2, r2 in B.slots if g2 is not False]))))
  return OR(*ds)


def order_limit_rel(rel, keys, limit, assumptions):
  """ORDER BY keys [(column index, desc)] LIMIT limit over a slot list.  Appends to
  `assumptions` that sort keys of present rows are non-null and pairwise distinct (the
  order must be total for the result to be determined)."""
  if not keys:
    if limit == 0:
      return Rel(rel.cols, [], ordered=True, distinct=True)
    raise Unsupported('limit without order')
  slots = rel.slots
  n = len(slots)

  def before(r1, r2):
    """row r1 sorts strictly before r2."""
    res = False
    eq_prefix = True
    for c, desc in keys:
      a, b = r1[c], r2[c]
      if not (isinstance(a, S) and isinstance(b, S)):
        raise Unsupported('ORDER BY structured column')
      lt = LT(_num(b), _num(a)) if desc else LT(_num(a), _num(b))
      res = OR(res, AND(eq_prefix, lt))
      eq_prefix = AND(eq_prefix, EQ(_num(a), _num(b)))
    return res, eq_prefix
  for i in range(n):
    for c, _ in keys:
      assumptions.append(IMPLIES(slots[i][0], NOT(slots[i][1][c].null)))
    for j in range(i):
      _, same = before(slots[i][1], slots[j][1])
      assumptions.append(IMPLIES(AND(slots[i][0], slots[j][0]), NOT(same)))
  rank = []
  for i in range(n):
    cnt = []
    for j in range(n):
      if i == j:
        continue
      b, _ = before(slots[j][1], slots[i][1])
      cnt.append(B2I(AND(slots[j][0], b)))
    rank.append(SUM(cnt))
  kmax = n if limit is None else min(limit, n)
  out = []
  for p in range(kmax):
    guard = OR(*[AND(slots[i][0], EQ(rank[i], p)) for i in range(n)])
    row = None
    for i in reversed(range(n)):
      c = AND(slots[i][0], EQ(rank[i], p))
      if row is None:
        row = list(slots[i][1])
      else:
        row = [ite_val(c, a, b) for a, b in zip(slots[i][1], row)]
    out.append((guard, row))
  return Rel(rel.cols, out, ordered=True, distinct=rel.distinct)
