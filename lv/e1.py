"""E1 core: compile a catalogue program with the real compiler, evaluate the emitted SQL
and an oracle symbolically over D(K), ask z3 for a database on which they differ, and
replay any model on real SQLite before calling it a violation."""
import json
import os
import time
import z3
from . import vals as V
from . import sqlparse, sqlsem, refsem, db as dbm, real, lang
from .vals import Unsupported

Z3_TIMEOUT_MS = int(os.environ.get('VERIF_Z3_TIMEOUT_MS', '60000'))


class Stats:
  def __init__(self):
    self.queries = 0
    self.unsat = 0
    self.sat = 0
    self.unknown = 0
    self.solver_s = 0.0
    self.not_encodable = 0
    self.trivial = 0
    self.programs = 0
    self.nontrivial = set()
    self.samples = []
    self.selftests = 0
    self.notes = []
    self.functions = set()

  def merge(self, o):
    for k in ('queries', 'unsat', 'sat', 'unknown', 'not_encodable', 'trivial', 'programs', 'selftests'):
      setattr(self, k, getattr(self, k) + getattr(o, k))
    self.solver_s += o.solver_s
    self.nontrivial |= o.nontrivial
    self.samples += o.samples
    self.notes += o.notes
    self.functions |= o.functions


def solver():
  s = z3.Solver()
  s.set('timeout', Z3_TIMEOUT_MS)
  return s


def check(s, stats):
  t0 = time.time()
  r = str(s.check())
  stats.solver_s += time.time() - t0
  stats.queries += 1
  if r == 'unsat':
    stats.unsat += 1
  elif r == 'sat':
    stats.sat += 1
  else:
    stats.unknown += 1
  return r


class SqlSide:
  """The emitted SQL of one predicate of one program, modelled over a SymDB."""

  def __init__(self, text, pred, D, strings, range_bound=3, compaction=True, import_root=None,
               pre_store=None):
    self.compiled = real.compile_pred(text, pred, import_root=import_root)
    self.statements = self.compiled.statements()
    # the script is taken the way the CLI's sqlite3_logica.RunSqlScript hands it to SQLite
    self.sql = '\n'.join(s if s.rstrip().endswith(';') else s + ';' for _k, s in real.executed_texts(self.statements) if s.strip())
    self.parsed = sqlparse.parse_script(self.sql)
    store = D.store()
    if pre_store:
      store.update(pre_store)
    self.ctx = sqlsem.Ctx(store, strings, range_bound, compaction)
    self.rel = sqlsem.run_script(self.parsed, self.ctx)
    if self.rel is None:
      raise Unsupported('script has no final select')
    self.assumptions = list(self.ctx.assumptions)

  def run_real(self, schema, rows):
    return run_real(self.statements, schema, rows)


class WorkflowSide:
  """The plan of one or more predicates executed by the real concertina_lib with a
  symbolic sql_runner (iterative recursion, @Ground)."""

  def __init__(self, text, preds, D, strings, range_bound=3, compaction=True, want=None):
    from . import plan
    self.text = text
    self.preds = list(preds)
    self.want = want or self.preds[0]
    self.executions = plan.compile_executions(text, self.preds)
    self.runner = plan.SymRunner(D.store(), strings, range_bound, compaction)
    self.result = plan.execute(self.executions, self.runner)
    hdr, rel = self.result[self.want]
    self.rel = rel
    self.assumptions = list(self.runner.ctx.assumptions)
    self.statements = [c['sql'] for c in self.runner.calls]
    self.sql = '\n'.join(self.statements)

  def run_real(self, schema, rows):
    from . import plan
    con = real.connect()
    try:
      dbm.load_sqlite(con, schema, rows)
      runner = plan.RealRunner(con)
      executions = plan.compile_executions(self.text, self.preds)
      res = plan.execute(executions, runner)
      return res[self.want]
    finally:
      con.close()


def run_real(statements, schema, rows, pre=None):
  con = real.connect()
  try:
    dbm.load_sqlite(con, schema, rows)
    if pre:
      pre(con)
    return real.run_statements(con, statements)
  finally:
    con.close()


def rows_key(rows):
  return sorted([tuple(V.freeze(real.normalise_cell(c)) for c in r) for r in rows], key=repr)


def canon_unordered(rows, modes):
  """canonicalise list-valued cells whose order is not defined (bag -> sorted, set ->
  sorted & deduplicated)."""
  out = []
  for r in rows:
    rr = []
    for c, m in zip(r, modes):
      if isinstance(c, (list, tuple)) and m in ('bag', 'set'):
        items = sorted(c, key=repr)
        if m == 'set':
          ded = []
          for x in items:
            if x not in ded:
              ded.append(x)
          items = ded
        rr.append(tuple(items))
      else:
        rr.append(V.freeze(c))
    out.append(tuple(rr))
  return out


def col_modes(rel):
  modes = []
  for i in range(len(rel.cols)):
    m = None
    for g, r in rel.slots:
      if isinstance(r[i], V.L):
        m = r[i].mode
        break
    modes.append(m)
  return modes


def compare_concrete(real_rows, model_rows, modes, ordered=False):
  a = canon_unordered([tuple(real.normalise_cell(c) for c in r) for r in real_rows], modes)
  b = canon_unordered(model_rows, modes)
  if ordered:
    return a == b, a, b
  return sorted(a, key=repr) == sorted(b, key=repr), sorted(a, key=repr), sorted(b, key=repr)


def write_replay(path, obj):
  os.makedirs(os.path.dirname(path), exist_ok=True)
  with open(path, 'w') as f:
    json.dump(obj, f, indent=1, default=repr)
  return path
