"""E2: CrossHair over real functions of /repo.

A harness module is Python source whose checked functions follow one convention:

    def k_something(a: int, b: str) -> bool:
        '''
        pre: <bounds>
        post: _
        '''
        ... calls the real code ..., returns True iff the property holds on this input

For every k_ function a *reachability twin* is generated (postcondition `not _`): CrossHair
must find an input on which the body runs to the end and returns True, otherwise the
harness is vacuous.  One OS process per condition; verdicts are parsed from
`crosshair check --report_all`.
"""
import concurrent.futures
import os
import re
import subprocess
import sys
import time

from . import framework as fw

PRELUDE = '''
import os, sys
os.environ['LOGICA_PARSER'] = 'PY'
sys.path.insert(0, %r)
'''


def twin_source(src, name):
  """duplicate function `name` as name__twin with the postcondition negated."""
  m = re.search(r'^def %s\(.*?(?=^def |\Z)' % re.escape(name), src, re.S | re.M)
  assert m, name
  body = m.group(0)
  body = body.replace('def %s(' % name, 'def %s__twin(' % name, 1)
  assert 'post: _' in body, 'harness %s must have `post: _`' % name
  body = body.replace('post: _', 'post: not _', 1)
  return body


def function_line(src, name):
  for i, l in enumerate(src.splitlines(), 1):
    if l.startswith('def %s(' % name):
      return i + 1
  raise KeyError(name)


def classify(output):
  lines = [l for l in output.splitlines() if l.strip()]
  text = '\n'.join(lines)
  if 'Confirmed over all paths' in text:
    return 'confirmed'
  if ': error:' in text:
    return 'counterexample'
  if 'Unable to meet precondition' in text:
    return 'unmet_precondition'
  if 'Not confirmed' in text:
    return 'not_confirmed'
  return 'no_verdict'


def _run_one(path, line, timeout, extra_args):
  cmd = [sys.executable, '-m', 'crosshair', 'check', '--report_all',
         '--per_condition_timeout', str(timeout)] + list(extra_args) + ['%s:%d' % (path, line)]
  t0 = time.time()
  env = dict(os.environ)
  env['PYTHONHASHSEED'] = '0'
  try:
    p = subprocess.run(cmd, stdout=subprocess.PIPE, stderr=subprocess.STDOUT, text=True,
                       timeout=timeout * 2 + 120, env=env)
    out = p.stdout
  except subprocess.TimeoutExpired as e:
    out = 'TIMEOUT ' + (e.stdout or '')
  return out, time.time() - t0


def check(src, names, timeout=60, repo=None, extra_args=(), twins=True, workers=None):
  """-> {name: {'verdict', 'twin', 'seconds', 'output'}}"""
  repo = repo or os.environ.get('VERIF_REPO', '/repo')
  d = fw.scratch_dir('logica_verif_kern_')
  full = PRELUDE % repo + src
  if twins:
    for n in names:
      full += '\n\n' + twin_source(src, n)
  path = os.path.join(d, 'harness_%d.py' % (abs(hash(src)) % 10 ** 8))
  with open(path, 'w') as f:
    f.write(full)
  jobs = []
  for n in names:
    jobs.append((n, False, function_line(full, n)))
    if twins:
      jobs.append((n, True, function_line(full, n + '__twin')))
  results = {n: {} for n in names}
  with concurrent.futures.ThreadPoolExecutor(max_workers=workers or fw.nproc()) as ex:
    futs = {ex.submit(_run_one, path, line, timeout, extra_args): (n, tw) for n, tw, line in jobs}
    for fut in concurrent.futures.as_completed(futs):
      n, tw = futs[fut]
      out, secs = fut.result()
      v = classify(out)
      if tw:
        # the twin must be *violated*: some input reaches the end with the property true
        results[n]['twin'] = 'reachable' if v == 'counterexample' else 'vacuous(%s)' % v
        results[n]['twin_output'] = out[-600:]
      else:
        results[n]['verdict'] = v
        results[n]['seconds'] = round(secs, 1)
        results[n]['output'] = out[-1500:]
  return results


def counterexample_args(output):
  """parse 'false when calling f(a=1, b="x")' -> source text of the call arguments."""
  m = re.search(r'when calling \w+\((.*?)\)(?: \(which returns .*\))?\s*$', output, re.M)
  return m.group(1) if m else None
