"""Access to the real code under /repo: compile a program, run emitted SQL on real SQLite."""
import json
import os
import sys

REPO = os.environ.get('VERIF_REPO', '/repo')
os.environ['LOGICA_PARSER'] = 'PY'
if REPO not in sys.path:
  sys.path.insert(0, REPO)

from parser_py import parse            # noqa: E402
from compiler import universe          # noqa: E402
from compiler import rule_translate    # noqa: E402
from compiler import functors          # noqa: E402
from common import sqlite3_logica      # noqa: E402


class Compiled:
  def __init__(self, text, pred, preamble, defines, main, formatted, program):
    self.text = text
    self.pred = pred
    self.preamble = preamble
    self.defines = defines
    self.main = main
    self.formatted = formatted
    self.program = program

  def statements(self):
    return [self.preamble] + list(self.defines) + [self.main]


def reset_parser_state():
  # parse.TOO_MUCH is process-global and sticky (see C13); every compile here starts
  # from the default so that unrelated checks are not perturbed.
  parse.TOO_MUCH = 'too much'


def compile_pred(text, pred, import_root=None, user_flags=None):
  reset_parser_state()
  rules = parse.ParseFile(text, import_root=import_root)['rule']
  prog = universe.LogicaProgram(rules, user_flags=user_flags or {})
  formatted = prog.FormattedPredicateSql(pred)
  ex = prog.execution
  return Compiled(text, pred, ex.preamble, list(ex.defines_and_exports), ex.main_predicate_sql,
                  formatted, prog)


def connect():
  return sqlite3_logica.SqliteConnect()


def normalise_cell(x):
  """SQLite returns JSON values as text; parse so that they compare with model values."""
  if isinstance(x, str) and x[:1] in '[{':
    try:
      return json.loads(x)
    except ValueError:
      return x
  return x


class _RecordingCursor(object):
  description = [('recorded',)]

  def __init__(self, rec):
    self.rec = rec

  def executescript(self, s):
    self.rec.append(('script', s))

  def execute(self, s, *a):
    self.rec.append(('query', s))

  def fetchall(self):
    return []


class _RecordingConnection(object):
  def __init__(self, rec):
    self.rec = rec

  def cursor(self):
    return _RecordingCursor(self.rec)

  def close(self):
    pass

  def commit(self):
    pass


def executed_texts(statements):
  """what the real sqlite3_logica.RunSqlScript (the function `logica.py <file> run <p>` calls)
  hands to SQLite for this statement list: [('script' | 'query', text)].  The connection is a
  recorder; the texts are then run on a connection of the caller's choice, or parsed."""
  rec = []
  saved = sqlite3_logica.SqliteConnect
  sqlite3_logica.SqliteConnect = lambda: _RecordingConnection(rec)
  try:
    sqlite3_logica.RunSqlScript(list(statements), 'csv')
  finally:
    sqlite3_logica.SqliteConnect = saved
  return rec


def run_statements(con, statements):
  """Executes the statements the way sqlite3_logica.RunSqlScript does (its own text assembly is
  used, see executed_texts), on a given connection."""
  cur = con.cursor()
  texts = executed_texts(statements)
  for kind, s in texts[:-1]:
    if kind == 'script':
      cur.executescript(s)
    else:
      cur.execute(s)
  cur.execute(texts[-1][1])
  rows = cur.fetchall()
  header = [d[0] for d in cur.description]
  return header, [tuple(normalise_cell(c) for c in r) for r in rows]


from type_inference.research import infer   # noqa: E402

DIAGNOSTICS = (parse.ParsingException, rule_translate.RuleCompileException,
               functors.FunctorError, infer.TypeErrorCaughtException)
