"""Translation validation of one catalogue case against the reference denotation
(properties C01, C02, C03).  Runs inside a worker process; returns plain data."""
import os
import time
import traceback
import z3
from . import vals as V
from . import e1, db as dbm, refsem, lang, real
from .vals import Unsupported

# the only diagnostics a catalogue program may legitimately get: limitations of the variable
# elimination that depend on how assignments and `in` are interleaved (see DESIGN.md, known
# finding KF-C07-order-dependent-elimination); measured rate 13 of 40000 core programs
TOLERATED_DIAGNOSTICS = ('circular dependency of', 'Found no way to assign variables')
MAX_SLOTS = int(os.environ.get('VERIF_MAX_SLOTS', '160'))


def ref_concrete(case, pred, rows, strings, K):
  """evaluate the reference on a concrete database (through z3 model evaluation)."""
  D = dbm.SymDB(case.used_tables_schema, K, case.nullable)
  ref = refsem.Ref(case.prog, D.store(), strings, macros=case.macros, depths=case.depths)
  rel = ref.relation(pred)
  s = z3.Solver()
  s.add(*D.constraints)
  s.add(*D.fix(rows))
  assert str(s.check()) == 'sat'
  m = s.model()
  ok = all(z3.is_true(m.eval(V.as_bool(a), model_completion=True)) for a in ref.assumptions)
  return rel, V.concretize_rel(m, rel, strings), ok


def ref_concrete_full(case, pred, rows, strings, K, range_bound=3):
  """reference on a concrete database, with the case's depths / order specs."""
  D = dbm.SymDB(case.used_tables_schema, K, case.nullable)
  ref = refsem.Ref(case.prog, D.store(), strings, range_bound, macros=case.macros, depths=case.depths,
                   order_specs=getattr(case, 'order_specs', None))
  rel = ref.relation(pred)
  s = z3.Solver()
  s.add(*D.constraints)
  s.add(*D.fix(rows))
  assert str(s.check()) == 'sat'
  m = s.model()
  ok = all(z3.is_true(m.eval(V.as_bool(a), model_completion=True)) for a in ref.assumptions)
  return rel, V.concretize_rel(m, rel, strings), ok


def _single(case, pred):
  import copy
  c = copy.copy(case)
  c.check = [pred]
  return c


def sqlite_rejects(text, pred, schema):
  """-> error text if real SQLite refuses the emitted statements on an empty database."""
  try:
    c = real.compile_pred(text, pred)
  except Exception:  # noqa: BLE001
    return None
  try:
    e1.run_real(c.statements(), schema, {})
  except Exception as e:  # noqa: BLE001
    return '%s: %s' % (type(e).__name__, e)
  return None


def concrete_fallback(case, pred, text, schema, strings, K, range_bound, list_nothing, trials=6):
  """reference vs real SQLite on seeded concrete databases -> replay dict of the first
  disagreement, or None.  Used only when the emitted SQL is outside the modelled subset."""
  import random
  rnd = random.Random(len(text) * 7919 + len(pred))
  try:
    D = dbm.SymDB(schema, K, case.nullable)
    ref = refsem.Ref(case.prog, D.store(), strings, range_bound, macros=case.macros, depths=case.depths,
                     list_nothing=list_nothing, order_specs=getattr(case, 'order_specs', None))
    rrel = ref.relation(pred)
    c = real.compile_pred(text, pred)
  except Exception:  # noqa: BLE001
    return None
  modes = e1.col_modes(rrel)
  for _ in range(trials):
    rows = {t: [tuple(rnd.randint(-1, 3) for _c in cols) for _i in range(rnd.randint(0, K))]
            for t, cols in schema.items()}
    s = z3.Solver()
    s.add(*D.constraints)
    s.add(*D.fix(rows))
    if str(s.check()) != 'sat':
      continue
    m = s.model()
    if not all(z3.is_true(m.eval(V.as_bool(a), model_completion=True)) for a in ref.assumptions):
      continue
    expected = V.concretize_rel(m, rrel, strings)
    try:
      hdr, real_rows = e1.run_real(c.statements(), schema, rows)
    except Exception as e:  # noqa: BLE001
      return {'program': text, 'pred': pred, 'db': rows, 'schema': schema, 'sqlite_error': repr(e),
              'real_rows': None, 'expected_rows': expected}
    same, a, b = e1.compare_concrete(real_rows, expected, modes, ordered=pred in getattr(case, 'ordered_preds', ()))
    if not same:
      return {'program': text, 'pred': pred, 'db': rows, 'schema': schema, 'statements': c.statements(),
              'real_rows': a, 'expected_rows': b, 'real_header': hdr}
  return None


def validate_case(case, prop_id, out_dir, K=None, timeout_ms=None, range_bound=3,
                  known=None, compaction=True, list_nothing='null'):
  """-> dict(results=[...per predicate...])"""
  res = []
  K = K or case.K
  text = getattr(case, 'compile_text', None) or case.prog.text()
  strings = V.Strings(lang.strings_of(case.prog))
  schema = {t: dbm.SCHEMA[t] for t in case.used_tables()} or {'G': dbm.SCHEMA['G']}
  case.used_tables_schema = schema
  for pred in case.check:
    r = {'pred': pred, 'status': None, 'solver_s': 0.0, 'queries': 0, 'K': K, 'family': case.family}
    res.append(r)
    t0 = time.time()
    try:
      D = dbm.SymDB(schema, K, case.nullable)
      try:
        if getattr(case, 'deep', False):
          side = e1.WorkflowSide(text, [pred], D, strings, range_bound, compaction)
          r['workflow_calls'] = len(side.statements)
        else:
          side = e1.SqlSide(text, pred, D, strings, range_bound, compaction)
      except Unsupported as e:
        r['status'] = 'not_encodable'
        r['why'] = 'sql: %s' % e
        # outside the modelled subset: at least SQLite must accept the statements
        err = sqlite_rejects(text, pred, schema)
        if err:
          r['status'] = 'violation'
          r['kind'] = 'sqlite_error'
          r['replay'] = {'property': prop_id, 'program': text, 'pred': pred, 'db': {},
                         'schema': schema, 'sqlite_error': err,
                         'real_rows': None, 'expected_rows': None}
          continue
        # ... and, as a safety net that is *not* a solver verdict, the reference is compared
        # with real SQLite on a few seeded concrete databases (reported as such)
        fb = concrete_fallback(case, pred, text, schema, strings, K, range_bound, list_nothing)
        if fb:
          r['status'] = 'violation'
          r['kind'] = 'rows (SQL not encodable; found by the concrete fallback, not by the solver)'
          r['replay'] = fb
          r['replay']['property'] = prop_id
        continue
      except real.DIAGNOSTICS as e:
        r['why'] = '%s: %s' % (type(e).__name__, str(e)[:200])
        if any(t in str(e) for t in TOLERATED_DIAGNOSTICS):
          r['status'] = 'rejected'
        else:
          # catalogue programs are valid by construction (they only address arguments that
          # exist, are range restricted and syntactically generated from an AST): any other
          # diagnostic means the compiler refuses a valid program
          r['status'] = 'violation'
          r['kind'] = 'valid catalogue program rejected: ' + r['why']
          r['replay'] = {'property': prop_id, 'program': text, 'pred': pred, 'db': {},
                         'schema': schema, 'diagnostic': r['why'],
                         'real_rows': None, 'expected_rows': None}
        continue
      except Exception as e:  # noqa: BLE001
        r['status'] = 'violation'
        r['kind'] = 'compiler_crash'
        r['replay'] = {'property': prop_id, 'program': text, 'pred': pred, 'db': {},
                       'schema': schema, 'exception': traceback.format_exc()[-1500:],
                       'real_rows': None, 'expected_rows': None}
        continue
      ref = refsem.Ref(case.prog, D.store(), strings, range_bound, macros=case.macros,
                       depths=case.depths, compaction=compaction, list_nothing=list_nothing,
                       order_specs=getattr(case, 'order_specs', None))
      try:
        rrel = ref.relation(pred)
      except Unsupported as e:
        r['status'] = 'not_encodable'
        r['why'] = 'ref: %s' % e
        continue
      r['slots'] = (len(side.rel.slots), len(rrel.slots))
      if max(r['slots']) > MAX_SLOTS:
        r['status'] = 'not_encodable'
        r['why'] = 'slot budget exceeded %r' % (r['slots'],)
        continue
      if side.rel.cols != rrel.cols:
        r['status'] = 'violation'
        r['kind'] = 'columns'
        r['detail'] = {'sql_columns': side.rel.cols, 'expected_columns': rrel.cols}
        # replay: real sqlite header
        hdr, _ = side.run_real(schema, {})
        if hdr == rrel.cols:
          r['status'] = 'harness_error'
          r['why'] = 'model columns differ from real header'
        else:
          r['replay'] = {'program': text, 'pred': pred, 'db': {}, 'real_header': hdr,
                         'expected_header': rrel.cols}
        continue
      assumptions = [V.as_bool(a) for a in side.assumptions + ref.assumptions]
      base = e1.solver()
      if timeout_ms:
        base.set('timeout', timeout_ms)
      base.add(*D.constraints)
      base.add(*assumptions)
      st = e1.Stats()
      # vacuity guards: assumptions satisfiable, and some database gives a non-empty result
      base.push()
      base.add(V.as_bool(V.OR(*[g for g, _ in rrel.slots])))
      wit = e1.check(base, st)
      base.pop()
      if wit == 'unsat':
        r['trivial'] = True
      elif wit != 'sat':
        r['witness_unknown'] = True
      base.push()
      ordered = pred in getattr(case, 'ordered_preds', ())
      if ordered:
        diff = V.sequence_diff(side.rel, rrel)
      else:
        diff = V.multiset_diff(side.rel, rrel)
      base.add(V.as_bool(diff))
      verdict = e1.check(base, st)
      r['solver_s'] = st.solver_s
      r['queries'] = st.queries
      if verdict == 'unsat':
        r['status'] = 'trivial' if r.get('trivial') else 'proved'
      elif verdict == 'unknown':
        r['status'] = 'unknown'
      else:
        m = base.model()
        rows = D.rows_of(m)
        model_sql = V.concretize_rel(m, side.rel, strings)
        model_ref = V.concretize_rel(m, rrel, strings)
        modes = e1.col_modes(rrel)
        hdr, real_rows = side.run_real(schema, rows)
        same_model, a, b = e1.compare_concrete(real_rows, model_sql, modes, ordered=ordered)
        same_ref, a2, b2 = e1.compare_concrete(real_rows, model_ref, modes, ordered=ordered)
        if not same_model and not same_ref:
          # the encoding does not describe what SQLite does with this statement, but the replay
          # stands on its own: the real code returns rows that differ from the reference
          r['status'] = 'violation'
          r['kind'] = 'rows (replayed on real SQLite; the SQL model also deviates from SQLite on this statement)'
          r['replay'] = {'property': prop_id, 'program': text, 'pred': pred, 'db': rows,
                         'schema': schema, 'statements': side.statements,
                         'real_rows': a2, 'expected_rows': b2, 'real_header': hdr, 'model_rows': b,
                         'how': 'bin/check %s --replay <this file>' % prop_id}
        elif not same_model:
          r['status'] = 'harness_error'
          r['why'] = 'SQL model disagrees with real SQLite on the counterexample'
          r['detail'] = {'db': rows, 'real': a, 'model': b, 'sql': side.sql, 'program': text}
        elif same_ref:
          r['status'] = 'harness_error'
          r['why'] = 'counterexample does not reproduce: real SQLite equals reference'
          r['detail'] = {'db': rows, 'real': a2, 'ref': b2, 'program': text}
        else:
          r['status'] = 'violation'
          r['kind'] = 'rows'
          r['replay'] = {'property': prop_id, 'program': text, 'pred': pred, 'db': rows,
                         'schema': schema, 'statements': side.statements,
                         'real_rows': a2, 'expected_rows': b2, 'real_header': hdr,
                         'how': 'bin/check %s --replay <this file>' % prop_id}
          from . import findings
          if list_nothing == 'null' and findings.list_of_nothing({}, r['replay'], {}):
            # listed known finding: accept exactly this deviation in the oracle and decide
            # the rest of the predicate's behaviour again
            sub = validate_case(_single(case, pred), prop_id, out_dir, K, timeout_ms, range_bound,
                                known, compaction, list_nothing='empty')['results'][0]
            sub['known_finding'] = 'KF-C02-list-of-nothing'
            sub['known_replay'] = r['replay']
            r.clear()
            r.update(sub)
      base.pop()
    except Exception as e:  # noqa: BLE001
      r['status'] = 'harness_error'
      r['why'] = 'exception: %s' % (traceback.format_exc()[-1500:],)
    finally:
      r['wall_s'] = time.time() - t0
  return {'text': text, 'results': res, 'family': case.family, 'notes': case.notes}


def selftest_case(case, rnd, ntrials=3, K=2, with_ref=True, hi=3, key_hi=None):
  """Serval-style validation of both evaluators against real SQLite on concrete seeded
  databases.  -> list of problems (empty = fine), number of comparisons made."""
  problems = []
  n = 0
  text = getattr(case, 'compile_text', None) or case.prog.text()
  strings = V.Strings(lang.strings_of(case.prog))
  schema = {t: dbm.SCHEMA[t] for t in case.used_tables()} or {'G': dbm.SCHEMA['G']}
  case.used_tables_schema = schema
  for pred in case.check:
    try:
      D = dbm.SymDB(schema, K, case.nullable)
      side = e1.SqlSide(text, pred, D, strings)
    except Unsupported:
      continue
    except Exception as e:  # noqa: BLE001
      continue
    for _ in range(ntrials):
      rows = {}
      for t, cols in schema.items():
        rs = []
        for _i in range(rnd.randint(0, K)):
          row = [(None if (t, c) in case.nullable and rnd.random() < 0.3 else rnd.randint(-1, hi)) for c in cols]
          if key_hi is not None and row[0] is not None:
            row[0] = rnd.randint(0, key_hi)      # few distinct keys: groups with several rows
          rs.append(tuple(row))
        rows[t] = rs
      s = z3.Solver()
      s.add(*D.constraints)
      s.add(*D.fix(rows))
      if str(s.check()) != 'sat':
        problems.append(('fix unsat', pred, rows))
        continue
      m = s.model()
      if not all(z3.is_true(m.eval(V.as_bool(a), model_completion=True)) for a in side.assumptions):
        continue
      model_rows = V.concretize_rel(m, side.rel, strings)
      try:
        hdr, real_rows = e1.run_real(side.statements, schema, rows)
      except Exception as e:  # noqa: BLE001
        # a statement the real engine refuses on a concrete database is a replayed violation
        problems.append(('violation', pred, {'program': text, 'pred': pred, 'db': rows, 'schema': schema,
                                             'statements': side.statements, 'sqlite_error': repr(e),
                                             'real_rows': None, 'expected_rows': None}))
        continue
      same, a, b = e1.compare_concrete(real_rows, model_rows, e1.col_modes(side.rel),
                                       ordered=side.rel.ordered)
      n += 1
      if not same or hdr != side.rel.cols:
        # who is wrong: the SQL model or the compiler?  ask the reference on this database
        verdict = None
        if with_ref:
          try:
            rrel, expected, ok = ref_concrete_full(case, pred, rows, strings, K)
            if ok:
              same_ref, a2, b2 = e1.compare_concrete(real_rows, expected, e1.col_modes(rrel),
                                                     ordered=pred in getattr(case, 'ordered_preds', ()))
              verdict = same_ref
          except Exception:  # noqa: BLE001
            verdict = None
        if verdict is False:
          problems.append(('violation', pred, {'program': text, 'pred': pred, 'db': rows, 'schema': schema,
                                               'statements': side.statements, 'real_rows': a2,
                                               'expected_rows': b2, 'real_header': hdr, 'model_rows': b,
                                               'found_by': 'encoder self-test on a seeded concrete database (not a solver verdict)'}))
        else:
          problems.append(('model != sqlite', pred, rows, a, b, text))
  return problems, n


def validate_contain(case, prop_id, K=None, timeout_ms=None, compaction=True):
  """C03 containment clause for monotone set programs under any unfolding strategy:
  T^(depth+1)(empty) <= result <= T^(cycle*(depth+1))(empty) <= lfp."""
  res = []
  K = K or case.K
  text = getattr(case, 'compile_text', None) or case.prog.text()
  strings = V.Strings(lang.strings_of(case.prog))
  schema = {t: dbm.SCHEMA[t] for t in case.used_tables()}
  case.used_tables_schema = schema
  for pred in case.check:
    r = {'pred': pred, 'status': None, 'solver_s': 0.0, 'queries': 0, 'K': K, 'family': case.family,
         'mode': 'contain'}
    res.append(r)
    t0 = time.time()
    try:
      D = dbm.SymDB(schema, K, case.nullable)
      try:
        side = e1.SqlSide(text, pred, D, strings, 3, compaction)
      except Unsupported as e:
        r['status'] = 'not_encodable'
        r['why'] = 'sql: %s' % e
        continue
      except real.DIAGNOSTICS as e:
        r['status'] = 'rejected'
        r['why'] = str(e)[:200]
        continue
      ref = refsem.Ref(case.prog, D.store(), strings, 3, macros=case.macros, depths=case.depths,
                       compaction=compaction)
      d1 = case.depth + 1
      try:
        lower = ref.relation_after(pred, d1)
        upper = ref.relation_after(pred, case.cycle * d1)
      except Unsupported as e:
        r['status'] = 'not_encodable'
        r['why'] = 'ref: %s' % e
        continue
      r['slots'] = (len(side.rel.slots), len(upper.slots))
      base = e1.solver()
      if timeout_ms:
        base.set('timeout', timeout_ms)
      base.add(*D.constraints)
      base.add(*[V.as_bool(a) for a in side.assumptions + ref.assumptions])
      st = e1.Stats()
      base.push()
      base.add(V.as_bool(V.OR(*[g for g, _ in lower.slots])))
      wit = e1.check(base, st)
      base.pop()
      verdicts = []
      bad = None
      for label, diff in (('lower', V.subset_violation(lower, side.rel)),
                          ('upper', V.subset_violation(side.rel, upper))):
        base.push()
        base.add(V.as_bool(diff))
        v = e1.check(base, st)
        verdicts.append(v)
        if v == 'sat':
          m = base.model()
          rows = D.rows_of(m)
          hdr, real_rows = e1.run_real(side.statements, schema, rows)
          real_set = set(e1.rows_key(real_rows))
          model_set = set(e1.rows_key(V.concretize_rel(m, side.rel, strings)))
          low_set = set(e1.rows_key(V.concretize_rel(m, lower, strings)))
          # true least fixpoint on this database: iterate the reference until stable
          prev = None
          n = case.cycle * d1
          while True:
            cur = set(e1.rows_key(V.concretize_rel(m, ref.relation_after(pred, n), strings)))
            if cur == prev or n > case.cycle * d1 + 40:
              break
            prev = cur
            n += 1
          lfp = cur
          if real_set != model_set:
            bad = ('harness_error', 'SQL model disagrees with real SQLite', rows, sorted(real_set), sorted(model_set))
          elif label == 'lower' and low_set <= real_set:
            bad = ('harness_error', 'lower-bound counterexample does not reproduce', rows, sorted(real_set), sorted(low_set))
          elif label == 'upper' and real_set <= lfp:
            # inside the least fixpoint: the syntactic upper bound was too tight, not a violation
            bad = ('unknown', 'result exceeds T^(c(d+1)) but is inside the least fixpoint', rows, sorted(real_set), sorted(lfp))
          else:
            bad = ('violation', label, rows, sorted(real_set), sorted(low_set if label == 'lower' else lfp))
        base.pop()
        if bad:
          break
      r['solver_s'] = st.solver_s
      r['queries'] = st.queries
      if bad:
        r['status'] = bad[0]
        r['why'] = bad[1]
        if bad[0] == 'violation':
          r['kind'] = 'containment-' + bad[1]
          r['replay'] = {'property': prop_id, 'program': text, 'pred': pred, 'db': bad[2],
                         'schema': schema, 'statements': side.statements, 'real_rows': bad[3],
                         'expected_rows': bad[4],
                         'expected_is': ('must contain T^(depth+1)(empty)' if bad[1] == 'lower'
                                         else 'must be inside the least fixpoint')}
        else:
          r['detail'] = {'db': bad[2], 'real': bad[3], 'other': bad[4], 'program': text}
      elif all(v == 'unsat' for v in verdicts):
        r['status'] = 'trivial' if wit == 'unsat' else 'proved'
      else:
        r['status'] = 'unknown'
    except Exception:  # noqa: BLE001
      r['status'] = 'harness_error'
      r['why'] = 'exception: %s' % (traceback.format_exc()[-1500:],)
    finally:
      r['wall_s'] = time.time() - t0
  return {'text': text, 'results': res, 'family': case.family, 'notes': case.notes}
