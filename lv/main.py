"""Entry point: python -m lv.main <ID> [--tier quick|thorough] [--replay FILE]"""
import importlib
import os
import sys


def main(argv):
  if not argv:
    print('usage: bin/check <ID> [--tier quick|thorough] [--replay FILE]')
    return 64
  prop = argv[0].upper()
  replay = None
  i = 1
  while i < len(argv):
    if argv[i] == '--tier':
      os.environ['VERIF_TIER'] = argv[i + 1]
      i += 2
    elif argv[i] == '--replay':
      replay = argv[i + 1]
      i += 2
    elif argv[i] == '--seed':
      os.environ['VERIF_SEED'] = argv[i + 1]
      i += 2
    else:
      print('unknown argument', argv[i])
      return 64
  try:
    mod = importlib.import_module('lv.checks.%s' % prop.lower())
  except ImportError as e:
    print('no check for %s (%s)' % (prop, e))
    return 64
  except Exception:  # noqa: BLE001
    import traceback
    print('HARNESS-ERROR property=%s the check could not be loaded:\n%s' % (prop, traceback.format_exc()[-2000:]))
    return 3
  if replay:
    return mod.replay(replay)
  try:
    return mod.run()
  except Exception:  # noqa: BLE001
    # a crash of the machinery is never a verdict about the code under test
    import traceback
    print('HARNESS-ERROR property=%s the check crashed:\n%s' % (prop, traceback.format_exc()[-3000:]))
    return 3


if __name__ == '__main__':
  sys.exit(main(sys.argv[1:]))
