"""Bounded symbolic evaluation of parsed SQL (see sqlparse) over a symbolic table store.

store: dict table name -> Rel.  The evaluator returns a Rel (slot list).  Side
assumptions (Range bound, tie-freeness, distinct sort keys) are appended to
ctx.assumptions and become part of the query.
"""
import z3
from . import vals as V
from .vals import S, L, R, B, Rel, Unsupported, AND, OR, NOT, ITE, EQ, SUM, B2I

AGG_FUNCS = {'SUM', 'MIN', 'MAX', 'COUNT', 'JSON_GROUP_ARRAY', 'DISTINCTLISTAGG', 'ARGMIN',
             'ARGMAX', 'ARRAY_CONCAT_AGG', 'ANY_VALUE', 'GROUP_CONCAT', 'AVG'}


class Ctx:
  def __init__(self, store, strings, range_bound=3, compaction=True):
    self.store = dict(store)
    self.strings = strings
    self.range_bound = range_bound
    self.assumptions = []
    self.compaction = compaction
    self.notes = []
    self.attached = {}     # alias -> file of ATTACH DATABASE statements seen by this connection
    self.guard = True      # presence condition of the row being evaluated (for conditional assumptions)


def has_agg(e):
  if not isinstance(e, tuple):
    return False
  if e[0] == 'call':
    name = e[1].upper()
    if name in AGG_FUNCS:
      if name in ('MIN', 'MAX') and len(e[2]) != 1:
        pass  # scalar MIN/MAX (Least/Greatest)
      else:
        return True
    return any(has_agg(a) for a in e[2])
  if e[0] == 'subquery':
    return False
  if e[0] == 'case':
    return any(has_agg(c) or has_agg(t) for c, t in e[1]) or (e[2] is not None and has_agg(e[2]))
  return any(has_agg(x) for x in e[1:] if isinstance(x, tuple))


class Env:
  """alias -> {col: value}; chained to the outer query's env for correlation."""

  def __init__(self, tables=None, outer=None):
    self.tables = tables or {}
    self.outer = outer

  def extend(self, alias, cols):
    t = dict(self.tables)
    t[alias] = cols
    return Env(t, self.outer)

  def lookup(self, alias, col):
    e = self
    while e is not None:
      if alias in e.tables:
        cols = e.tables[alias]
        if col not in cols:
          raise Unsupported('no column %s.%s (sqlite would reject or treat as string)' % (alias, col))
        return cols[col]
      e = e.outer
    raise Unsupported('unknown alias %s' % alias)

  def lookup_bare(self, name):
    e = self
    while e is not None:
      hits = [cols[name] for cols in e.tables.values() if name in cols]
      if len(hits) == 1:
        return hits[0]
      if len(hits) > 1:
        raise Unsupported('ambiguous column ' + name)
      e = e.outer
    raise Unsupported('unknown column ' + name)


# ------------------------------------------------------------------ expressions

def ev(e, env, ctx, group=None):
  """-> S/L/R value or B condition.  group: list of (guard, Env) when evaluating a
  select item / key of an aggregating query."""
  k = e[0]
  if k == 'num':
    return S(e[1], 'int')
  if k == 'str':
    return S(ctx.strings.id(e[1]), 'str')
  if k == 'null':
    return V.NULL
  if k == 'col':
    return env.lookup(e[1], e[2])
  if k == 'name':
    return env.lookup_bare(e[1])
  if k == 'and':
    return V.b_and(V.to_B(ev(e[1], env, ctx, group)), V.to_B(ev(e[2], env, ctx, group)))
  if k == 'or':
    return V.b_or(V.to_B(ev(e[1], env, ctx, group)), V.to_B(ev(e[2], env, ctx, group)))
  if k == 'not':
    return V.b_not(V.to_B(ev(e[1], env, ctx, group)))
  if k == 'isnull':
    x = V.to_S(ev(e[1], env, ctx, group))
    return B(x.null, False)
  if k == 'cmp':
    return V.cmp_sql(e[1], ev(e[2], env, ctx, group), ev(e[3], env, ctx, group))
  if k == 'arith':
    a = V.to_S(ev(e[2], env, ctx, group))
    b = V.to_S(ev(e[3], env, ctx, group))
    if not (isinstance(a, S) and isinstance(b, S)):
      raise Unsupported('arithmetic on structured value')
    if (a.kind == 'str' and a.null is not True) or (b.kind == 'str' and b.null is not True):
      raise Unsupported('arithmetic on string')
    x, y = V._num(a), V._num(b)
    op = e[1]
    if op == '+':
      v = x + y
    elif op == '-':
      v = x - y
    elif op == '*':
      if not V.isc(x) and not V.isc(y):
        raise Unsupported('non-linear multiplication')
      v = x * y
    elif op == '%' and V.isc(y) and int(y) != 0:
      v = V.trunc_rem(x, y)
    else:
      raise Unsupported('operator ' + op)
    return S(v, 'int', OR(a.null, b.null))
  if k == 'concat':
    # `'lit' || ''` is how the compiler keeps a literal GROUP BY key from being read as a
    # column index
    if e[2] == ('str', ''):
      return ev(e[1], env, ctx, group)
    if e[1] == ('str', ''):
      return ev(e[2], env, ctx, group)
    raise Unsupported('string concatenation')
  if k == 'case':
    out = ev(e[2], env, ctx, group) if e[2] is not None else V.NULL
    for c, t in reversed(e[1]):
      cond = V.to_B(ev(c, env, ctx, group)).true()
      out = V.ite_val(cond, V.to_S(ev(t, env, ctx, group)), V.to_S(out))
    return out
  if k == 'subquery':
    rel = eval_select(e[1], ctx, env)
    if len(rel.cols) != 1:
      raise Unsupported('scalar subquery with several columns')
    if len(rel.slots) == 1 and rel.slots[0][0] is True:
      return rel.slots[0][1][0]
    if not rel.slots:
      return V.NULL
    # first row of an unordered multi-row subquery is not well defined
    raise Unsupported('scalar subquery that is not a single aggregate row')
  if k == 'call':
    return ev_call(e, env, ctx, group)
  raise Unsupported('expression node ' + k)


def element_index(e):
  """recognise '$[' || idx || ']' -> idx expression; '$.name' -> ('field', name)."""
  if e[0] == 'concat' and e[2] == ('str', ']') and e[1][0] == 'concat' and e[1][1] == ('str', '$['):
    return ('idx', e[1][2])
  if e[0] == 'str' and e[1].startswith('$.'):
    return ('field', e[1][2:])
  return None


def ev_call(e, env, ctx, group):
  name = e[1].upper()
  args = e[2]
  if name in AGG_FUNCS and not (name in ('MIN', 'MAX') and len(args) != 1):
    if group is None:
      raise Unsupported('aggregate outside aggregating query')
    return ev_agg(name, args, e[3], group, ctx)
  if name == 'MAGICALENTANGLE':
    return ev(args[0], env, ctx, group)
  if name == 'JSON_ARRAY':
    return L([(True, V.to_S(ev(a, env, ctx, group))) for a in args], 'seq')
  if name == 'JSON_OBJECT':
    fs = {}
    for i in range(0, len(args), 2):
      if args[i][0] != 'str':
        raise Unsupported('JSON_OBJECT with dynamic key')
      fs[args[i][1]] = V.to_S(ev(args[i + 1], env, ctx, group))
    return R(fs)
  if name == 'JSON_EXTRACT':
    base = ev(args[0], env, ctx, group)
    sel = element_index(args[1])
    if sel is None:
      raise Unsupported('JSON_EXTRACT path')
    if sel[0] == 'field':
      if not isinstance(base, R):
        raise Unsupported('field of non-record')
      if sel[1] not in base.fields:
        raise Unsupported('missing field')
      f = base.fields[sel[1]]
      return V.ite_val(NOT(base.null), f, V.null_like(f)) if base.null is not False else f
    idx = V.to_S(ev(sel[1], env, ctx, group))
    # SQLite raises "JSON path error" for a negative index: outside the claim (assumed away)
    ctx.assumptions.append(OR(idx.null, V.LE(0, idx.v)))
    return V.list_element(base, idx)
  if name == 'JSON_ARRAY_LENGTH':
    l = ev(args[0], env, ctx, group)
    if not isinstance(l, L):
      raise Unsupported('Size of non-list')
    return V.list_size(l)
  if name == 'IN_LIST':
    x = V.to_S(ev(args[0], env, ctx, group))
    l = ev(args[1], env, ctx, group)
    if not isinstance(l, L):
      raise Unsupported('IN_LIST of non-list')
    return V.in_list(x, l)
  if name == 'LOGICA_RANGE':
    n = V.to_S(ev(args[0], env, ctx, group))
    ctx.assumptions.append(OR(n.null, V.LE(n.v, ctx.range_bound)))
    # SQLite template: recursive CTE always yields n=0 first, the outer filter n < arg
    # removes it when arg <= 0; NULL arg gives empty list
    return L([(AND(NOT(n.null), V.LT(i, n.v)), S(i, 'int')) for i in range(ctx.range_bound)], 'seq')
  if name in ('MIN', 'MAX'):  # scalar Least/Greatest: null if any arg null
    xs = [V.to_S(ev(a, env, ctx, group)) for a in args]
    acc = xs[0]
    for x in xs[1:]:
      better = V.LT(V._num(x), V._num(acc)) if name == 'MIN' else V.LT(V._num(acc), V._num(x))
      acc = S(ITE(better, V._num(x), V._num(acc)), acc.kind, OR(acc.null, x.null))
    return acc
  if name == 'ABS':
    x = V.to_S(ev(args[0], env, ctx, group))
    return S(ITE(V.LT(x.v, 0), 0 - x.v, x.v), 'int', x.null)
  raise Unsupported('function ' + e[1])


def ev_agg(name, args, distinct, group, ctx):
  def arg_vals(a):
    return [(g, V.to_S(ev(a, menv, ctx, None))) for g, menv in group]
  if name == 'SUM':
    return V.agg_sum(arg_vals(args[0]))
  if name == 'MIN':
    return V.agg_minmax(arg_vals(args[0]), True)
  if name == 'MAX':
    return V.agg_minmax(arg_vals(args[0]), False)
  if name == 'COUNT':
    if distinct:
      return V.agg_count_distinct(arg_vals(args[0]))
    return V.agg_count(arg_vals(args[0]))
  if name == 'JSON_GROUP_ARRAY':
    ms = arg_vals(args[0])
    for g, x in ms:
      if not isinstance(x, S):
        raise Unsupported('list of structured values (JSON subtype is lost in SQLite)')
    l = V.agg_list(ms)
    if getattr(ctx, 'ordered_group', False):
      l.mode = 'seq'   # rows come out of an ordered source (recursive CTE): array order is row order
    return l
  if name == 'DISTINCTLISTAGG':
    ms = arg_vals(args[0])
    for g, x in ms:
      if not isinstance(x, S):
        raise Unsupported('set of structured values')
    return V.agg_set(ms)
  if name in ('ARGMIN', 'ARGMAX'):
    a = arg_vals(args[0])
    v = arg_vals(args[1])
    lim = args[2]
    if lim[0] == 'null':
      limit = None
    elif lim[0] == 'num':
      limit = lim[1]
      if limit <= 0:
        raise Unsupported('ArgMin limit <= 0 raises')
    else:
      raise Unsupported('dynamic ArgMin limit')
    ctx.assumptions.append(V.tie_free([(g, x) for g, x in v]))
    return V.agg_argbest([(g, x, y) for (g, x), (_, y) in zip(a, v)], name == 'ARGMIN', limit)
  raise Unsupported('aggregate ' + name)


# ------------------------------------------------------------------ queries

def eval_recursive_cte(name, sub, ctx, outer_env):
  """WITH RECURSIVE name AS (base UNION ALL step): SQLite evaluates the step once per
  newly produced row.  Unrolled range_bound+1 times; that the recursion has stopped by
  then is added to the query's assumptions."""
  core = sub['core']
  if core[0] != 'union' or len(core[1]) != 2:
    raise Unsupported('recursive CTE shape')
  base = eval_select(core[1][0], ctx, outer_env)
  allslots = list(base.slots)
  frontier = base
  for _ in range(ctx.range_bound + 1):
    saved = ctx.store.get(name)
    ctx.store[name] = frontier
    try:
      nxt = eval_select(core[1][1], ctx, outer_env)
    finally:
      if saved is None:
        ctx.store.pop(name, None)
      else:
        ctx.store[name] = saved
    nxt = Rel(base.cols, nxt.slots)
    frontier = nxt
    if not nxt.slots:
      break
    allslots.extend(nxt.slots)
  else:
    pass
  # the last computed frontier must be empty for the unrolling to be complete
  ctx.assumptions.append(NOT(OR(*[g for g, _ in frontier.slots])))
  allslots = allslots[:len(allslots) - len(frontier.slots)] if frontier.slots else allslots
  return Rel(base.cols, allslots, ordered=True)


def eval_select(q, ctx, outer_env=None):
  saved = None
  if q['with']:
    saved = dict(ctx.store)
    for name, sub in q['with']:
      if q.get('recursive'):
        ctx.store[name] = eval_recursive_cte(name, sub, ctx, outer_env)
      else:
        ctx.store[name] = eval_select(sub, ctx, outer_env)
  try:
    rel = eval_core(q['core'], ctx, outer_env, q)
  finally:
    if saved is not None:
      ctx.store = saved
  return rel


def eval_core(core, ctx, outer_env, q):
  saved_guard = ctx.guard
  try:
    return _eval_core(core, ctx, outer_env, q)
  finally:
    ctx.guard = saved_guard


def _eval_core(core, ctx, outer_env, q):
  if core[0] == 'union':
    parts = [eval_select(p, ctx, outer_env) for p in core[1] if p is not None]
    if not parts:
      raise Unsupported('union of nil only')
    cols = parts[0].cols
    slots = []
    for p in parts:
      if len(p.cols) != len(cols):
        raise Unsupported('union arity mismatch')
      slots.extend(p.slots)
    rel = Rel(cols, slots)
    return order_limit(rel, q, ctx, None)
  sel = core[1]
  outer_guard = ctx.guard
  base_env = Env({}, outer_env)
  combos = [(True, base_env)]
  ordered_input = False
  for item in sel['from']:
    new = []
    if item[0] == 'table':
      if item[1] not in ctx.store:
        raise Unsupported('unknown table ' + item[1])
      rel = ctx.store[item[1]]
      if len(sel['from']) == 1 and rel.ordered:
        ordered_input = True
      for g, env in combos:
        for g2, row in rel.slots:
          gg = AND(g, g2)
          if gg is False:
            continue
          new.append((gg, env.extend(item[2], dict(zip(rel.cols, row)))))
    elif item[0] == 'sub':
      for g, env in combos:
        ctx.guard = AND(outer_guard, g)
        rel = eval_select(item[1], ctx, env)
        if len(sel['from']) == 1 and rel.ordered:
          ordered_input = True
        for g2, row in rel.slots:
          gg = AND(g, g2)
          if gg is False:
            continue
          new.append((gg, env.extend(item[2], dict(zip(rel.cols, row)))))
    elif item[0] == 'each':
      for g, env in combos:
        ctx.guard = AND(outer_guard, g)
        l = ev(item[1], env, ctx)
        if not isinstance(l, L):
          raise Unsupported('JSON_EACH of non-list')
        for g2, x in l.items:
          gg = AND(g, g2, NOT(l.null))
          if gg is False:
            continue
          new.append((gg, env.extend(item[2], {'value': x})))
    combos = new
    V.check_budget(len(combos))
  if sel['where'] is not None:
    new = []
    for g, env in combos:
      ctx.guard = AND(outer_guard, g)
      c = V.to_B(ev(sel['where'], env, ctx)).true()
      gg = AND(g, c)
      if gg is False:
        continue
      new.append((gg, env))
    combos = new
  names = []
  for i, (e, name) in enumerate(sel['items']):
    if name is None:
      if e[0] == 'col':
        name = e[2]
      elif e[0] == 'name':
        name = e[1]
      else:
        name = '?column%d' % i
    names.append(name)
  aggregating = sel['group'] is not None or any(has_agg(e) for e, _ in sel['items'])
  if sel['distinct']:
    raise Unsupported('SELECT DISTINCT')
  if not aggregating:
    slots = []
    for g, env in combos:
      ctx.guard = AND(outer_guard, g)
      slots.append((g, [V.to_S(ev(e, env, ctx)) for e, _ in sel['items']]))
    rel = Rel(names, slots, ordered=ordered_input)
    return order_limit(rel, q, ctx, combos)
  if sel['group'] is None:
    # single group, exactly one output row
    group = [(g, env) for g, env in combos]
    ctx.ordered_group = ordered_input
    # non-aggregate column references outside aggregates are taken from an arbitrary
    # row in SQLite; Logica only emits outer-correlated references there
    rep_env = Env({}, outer_env)
    row = [V.to_S(ev(e, rep_env, ctx, group)) for e, _ in sel['items']]
    return order_limit(Rel(names, [(True, row)], distinct=True), q, ctx, None)
  keys = [[V.to_S(ev(ke, env, ctx)) for ke in sel['group']] for g, env in combos]
  groups = V.group_slots([(g, env) for g, env in combos], keys, ctx.compaction)
  slots = []
  all_keys_selected = True
  for rep, keyvals, members in groups:
    # representative env: key expressions must evaluate to keyvals; other columns come
    # from a member (SQLite picks an arbitrary row; Logica groups by every non-aggregated
    # select expression so this does not matter)
    rep_env = KeyEnv(sel['group'], keyvals, members, Env({}, outer_env))
    row = [V.to_S(ev_keyed(e, rep_env, ctx, members)) for e, _ in sel['items']]
    slots.append((rep, row))
  # result is duplicate-free when every group key is among the selected expressions
  sel_exprs = [e for e, _ in sel['items']]
  dist = all(k in sel_exprs for k in sel['group'])
  return order_limit(Rel(names, slots, distinct=dist), q, ctx, None)


class KeyEnv:
  def __init__(self, key_exprs, key_vals, members, outer):
    self.key_exprs = key_exprs
    self.key_vals = key_vals
    self.members = members
    self.outer = outer


def ev_keyed(e, kenv, ctx, members):
  """evaluate a select item of a GROUP BY query: key expressions are replaced by the
  group's key values, aggregates range over the members, anything else must be an
  outer (correlated) reference."""
  shim = ShimEnv(kenv, ctx, members)
  return ev(substitute_keyed(e, shim), shim.env, ctx, None)


class ShimEnv:
  """Binds evaluated sub-results to synthetic columns so that generic `ev` can finish
  the evaluation of an expression that mixes keys, aggregates and scalar operators."""

  def __init__(self, kenv, ctx, members):
    self.kenv = kenv
    self.ctx = ctx
    self.members = members
    self.cols = {}
    self.env = Env({'__k': self.cols}, kenv.outer)

  def bind(self, val):
    name = 'v%d' % len(self.cols)
    self.cols[name] = val
    return ('col', '__k', name)


def substitute_keyed(e, shim):
  if not isinstance(e, tuple):
    return e
  for ke, kv in zip(shim.kenv.key_exprs, shim.kenv.key_vals):
    if e == ke:
      return shim.bind(kv)
  k = e[0]
  if k == 'call' and e[1].upper() in AGG_FUNCS and not (
      e[1].upper() in ('MIN', 'MAX') and len(e[2]) != 1):
    return shim.bind(ev_agg(e[1].upper(), e[2], e[3], shim.members, shim.ctx))
  if k == 'call':
    return ('call', e[1], [substitute_keyed(a, shim) for a in e[2]], e[3])
  if k == 'case':
    return ('case', [(substitute_keyed(c, shim), substitute_keyed(t, shim)) for c, t in e[1]],
            substitute_keyed(e[2], shim) if e[2] is not None else None)
  if k in ('col', 'name'):
    try:
      return shim.bind(ev(e, shim.kenv.outer, shim.ctx))
    except Unsupported:
      raise Unsupported('non-key column %r in GROUP BY select list' % (e,))
  if k == 'subquery':
    raise Unsupported('subquery in aggregating select list')
  return tuple(substitute_keyed(x, shim) if isinstance(x, tuple) else x for x in e)


def order_limit(rel, q, ctx, combos):
  if q['order'] is None and q['limit'] is None:
    return rel
  if q['order'] is None:
    if q['limit'] == 0:
      return Rel(rel.cols, [], ordered=True, distinct=True)
    raise Unsupported('LIMIT without ORDER BY')
  # sort keys refer to output columns (Logica emits column names, possibly with desc)
  keys = []
  for e, desc in q['order']:
    if e[0] == 'name' and e[1] in rel.cols:
      keys.append((rel.col(e[1]), desc))
    else:
      raise Unsupported('ORDER BY expression')
  return V.order_limit_rel(rel, keys, q['limit'], ctx.assumptions)


# ------------------------------------------------------------------ scripts

def persisting_store(ctx):
  """what is left for the next connection: unqualified (extensional) tables and the tables of
  attached database *files*, keyed by file; tables of ':memory:' attachments are gone."""
  out = {}
  for key, rel in ctx.store.items():
    if '::' in key:
      out.setdefault(key, rel)
      continue
    if '.' in key:
      alias, t = key.split('.', 1)
      f = ctx.attached.get(alias)
      if f is None:
        out[key] = rel
      elif f != ':memory:':
        out['%s::%s' % (f, t)] = rel
      continue
    out[key] = rel
  # a table dropped through its alias is dropped in the file
  for alias, f in ctx.attached.items():
    if f == ':memory:':
      continue
    for key in list(out):
      if key.startswith(f + '::') and '%s.%s' % (alias, key[len(f) + 2:]) not in ctx.store:
        del out[key]
  return out


def run_script(stmts, ctx):
  """Executes a list of parsed statements against ctx.store; returns Rel of the last
  select (or None).  Also records reads-before-writes for C14/C17."""
  last = None
  for st in stmts:
    k = st[0]
    if k == 'attach':
      # tables persisted in that file by earlier connections become visible under the alias;
      # ':memory:' starts empty and dies with the connection (see persisting_store)
      f, alias = st[1], st[2]
      ctx.attached[alias] = f
      for key in list(ctx.store):
        if key.startswith(f + '::') and f != ':memory:':
          ctx.store['%s.%s' % (alias, key[len(f) + 2:])] = ctx.store[key]
      continue
    if k == 'drop':
      ctx.store.pop(st[1], None)
      ctx.notes.append(('drop', st[1]))
    elif k == 'create':
      if st[1] in ctx.store:
        raise Unsupported('CREATE TABLE over existing table (sqlite error)')
      ctx.store[st[1]] = eval_select(st[2], ctx)
      # a materialised table forgets ordering
      ctx.store[st[1]].ordered = False
      ctx.notes.append(('create', st[1]))
    elif k == 'select':
      last = eval_select(st[1], ctx)
  return last
