"""Workflow execution of compiled programs through the real concertina_lib, with either a
symbolic sql_runner (E1's statement interpreter over the symbolic table store) or a real
SQLite runner (replay)."""
import io
import contextlib
from . import real, sqlparse, sqlsem, vals as V
from .vals import Unsupported

with contextlib.redirect_stdout(io.StringIO()):   # 'Could not import IPython' banner
  from common import concertina_lib   # noqa: E402  (path set up by lv.real)


def compile_executions(text, preds, import_root=None):
  real.reset_parser_state()
  rules = real.parse.ParseFile(text, import_root=import_root)['rule']
  executions = []
  for p in preds:
    prog = real.universe.LogicaProgram(rules)
    prog.FormattedPredicateSql(p)
    executions.append(prog.execution)
  return executions


class SymRunner:
  def __init__(self, store, strings, range_bound=3, compaction=True):
    self.ctx = sqlsem.Ctx(store, strings, range_bound, compaction)
    self.calls = []

  def __call__(self, sql, engine, is_final):
    stmts = sqlparse.parse_script(sql)
    before = set(self.ctx.store)
    rel = sqlsem.run_script(stmts, self.ctx)
    self.calls.append({'sql': sql, 'is_final': is_final})
    if is_final:
      if rel is None:
        raise Unsupported('final statement without select')
      return rel.cols, rel
    return None


class RealRunner:
  def __init__(self, con):
    self.con = con
    self.calls = []

  def __call__(self, sql, engine, is_final):
    self.calls.append({'sql': sql, 'is_final': is_final})
    if is_final:
      cur = self.con.execute(sql)
      header = [d[0] for d in cur.description]
      return header, [tuple(real.normalise_cell(c) for c in r) for r in cur.fetchall()]
    self.con.executescript(sql)
    return None


def execute(executions, runner):
  buf = io.StringIO()
  with contextlib.redirect_stdout(buf):
    return concertina_lib.ExecuteLogicaProgram(executions, runner, 'sqlite', display_mode='silent')
