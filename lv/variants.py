"""Harness generator for "whole compilation under CrossHair".

Measured: one concrete compilation spends 96% of its time parsing the dialect library inside
LogicaProgram.__init__ (0.28 of 0.295 s) and costs ~10 minutes per path under CrossHair's
tracing; with the library parse precomputed outside the traced region and the programs parsed at
module import, a whole compilation (UnfoldRecursion, RunMakes, Annotations, RunInjections,
ElliminateInternalVariables, AsSql) costs 2-4 s per path.  Cuts (recorded in evidence):
  * parse.ParseFile(<dialect library text>) is memoised (the text is a constant of the dialect);
  * programs are parsed by the real parser at harness import time, i.e. concretely;
  * optionally the 600-entry CSV function table is replaced by a 2-entry table.
"""

COMPILE_PRELUDE = r'''
import copy
from parser_py import parse
from compiler import universe, rule_translate, functors, expr_translate
from type_inference.research import infer

_real_parse_file = parse.ParseFile
_LIB = {}


class _ParseMemo(object):
  """universe's view of the parser: library texts are parsed once (outside the traced region,
  during warm-up) and handed out as fresh lists of the same rule objects"""

  def __getattr__(self, name):
    return getattr(parse, name)

  @staticmethod
  def ParseFile(s, *a, **k):
    key = str(s)
    if key not in _LIB:
      _LIB[key] = _real_parse_file(s, *a, **k)
    return {'rule': copy.deepcopy(_LIB[key]['rule']) if DEEP_COPY_LIBRARY else list(_LIB[key]['rule'])}


DEEP_COPY_LIBRARY = False
universe.parse = _ParseMemo()
if SMALL_BULK_TABLE:
  expr_translate.QL.BULK_FUNCTIONS = {'Abs': 'ABS(%s)', 'Sin': 'SIN(%s)'}
  expr_translate.QL.BULK_FUNCTIONS_ARITY_RANGE = {'Abs': (1, 1), 'Sin': (1, 1)}

DIAGNOSTICS = (parse.ParsingException, rule_translate.RuleCompileException, functors.FunctorError,
               infer.TypeErrorCaughtException)


def rules_of(text):
  """real parser, concretely, at import time -> rules | ('parse_error', message)"""
  parse.TOO_MUCH = 'too much'
  try:
    return parse.ParseFile(text)['rule']
  except parse.ParsingException as e:
    return ('parse_error', str(e))


def compile_outcome(rules, pred):
  """-> ('sql', text) | ('diagnostic', type name) | ('internal', type name)"""
  if isinstance(rules, tuple):
    return ('diagnostic', 'ParsingException')
  try:
    return ('sql', universe.LogicaProgram(rules).FormattedPredicateSql(pred))
  except DIAGNOSTICS as e:
    return ('diagnostic', type(e).__name__)
  except Exception as e:
    return ('internal', type(e).__name__)


def warm(rules_list, pred_list):
  """compile everything once concretely (fills the memo, class-level tables) and make sure the
  shared library rule objects are not mutated by a compilation; if they are, hand out copies"""
  global DEEP_COPY_LIBRARY
  for r, p in zip(rules_list, pred_list):
    if not isinstance(r, tuple):
      compile_outcome(copy.deepcopy(r), p)
  snap = copy.deepcopy(_LIB)
  for r, p in zip(rules_list, pred_list):
    if not isinstance(r, tuple):
      compile_outcome(copy.deepcopy(r), p)
  if snap != _LIB:
    _LIB.clear()
    _LIB.update(snap)
    DEEP_COPY_LIBRARY = True
'''


UNTRACED = r'''
import contextlib as _ctx


def untraced():
  """Once the harness has turned its symbolic choice into a concrete value (by branching on it),
  nothing symbolic flows into the rest of the path: that rest is executed natively instead of
  under CrossHair's tracer (concolic execution of a concrete remainder).  Outside CrossHair
  (replays) this is a no-op."""
  try:
    from crosshair import tracers as _t
    if _t.is_tracing():
      return _t.NoTracing()
  except Exception:
    pass
  return _ctx.nullcontext()


def concretise(m, n):
  """turn a symbolic integer 0 <= m < n into a concrete one by branching on it (n paths)"""
  for j in range(n - 1):
    if m == j:
      return j
  return n - 1
'''


def prelude(small_bulk=True):
  return 'SMALL_BULK_TABLE = %r\n' % small_bulk + COMPILE_PRELUDE + UNTRACED


def reject_kernel(name, variants):
  """variants: [(program text, predicate, must_be_rejected: bool)] -> harness source for
  k_<name>(i): the compiler gives a diagnostic exactly for the variants that must be rejected,
  SQL for the others, and never an internal error."""
  src = '''
TEXTS_%(n)s = %(texts)r
PREDS_%(n)s = %(preds)r
EXPECT_%(n)s = %(expect)r
RULES_%(n)s = [rules_of(t) for t in TEXTS_%(n)s]
warm(RULES_%(n)s, PREDS_%(n)s)


def k_%(n)s(i: int) -> bool:
  """
  pre: 0 <= i < %(count)d
  post: _
  """
  j = concretise(i, %(count)d)
  with untraced():
    kind, what = compile_outcome(RULES_%(n)s[j], PREDS_%(n)s[j])
    if kind == 'internal':
      return False
    return (kind == 'diagnostic') == EXPECT_%(n)s[j]
''' % dict(n=name, texts=[v[0] for v in variants], preds=[v[1] for v in variants],
           expect=[bool(v[2]) for v in variants], count=len(variants))
  return 'k_' + name, src
