"""E4: symbolic set-iteration order.

The order in which CPython iterates a set of strings depends on PYTHONHASHSEED; for the compiler
this is the only channel through which the hash seed (and, with it, "another process") can reach
the emitted SQL (no hash(), id(), random or time other than the documented stop-file name occur
in compiler/, parser_py/parse.py, type_inference/research/).  To decide "the SQL does not depend
on it" without running many processes, every place where the *source* consumes an iterable in
order is rewritten - at import time, from /repo's current files - to go through `_vo_(E)`:

    for x in E            ->  for x in _vo_(E)            (also in comprehensions)
    list(E), tuple(E), enumerate(E), iter(E), zip(..), map(f, E), filter(f, E), reversed(E),
    sorted(E, key=..), min/max(E, key=..) (ties), dict.fromkeys(E), OrderedDict(E), dict(E)
                          ->  the same call on _vo_(E)
    s.join(E), l.extend(E), l += E
                          ->  ... _vo_(E)
    E.pop()               ->  _vpop_(E)

`_vo_(E)` returns E unchanged unless E is a set/frozenset with two or more elements; then it
returns the elements in an order chosen by the ORACLE: canonical (sorted by repr) permuted by the
next choice.  Choices inside the window [lo, lo+len(choices)) are the harness's symbolic integers,
so CrossHair explores every order of those iteration events; events outside the window use the
canonical order.  A kernel asserts SQL(choices) == SQL(canonical).
"""

PRELUDE = r'''
import ast as _ast, importlib.machinery as _mach, importlib.util as _iutil, sys as _sys, os as _os
import builtins as _builtins

_REPO_ROOT = _os.path.realpath(_sys.path[0])
_WRAP_ARGS = set(['list', 'tuple', 'enumerate', 'iter', 'zip', 'map', 'filter', 'reversed', 'next', 'OrderedDict', 'dict'])
_WRAP_IF_KEY = set(['sorted', 'min', 'max'])     # order-dependent only through ties under a key function
_WRAP_METHOD_ARG = set(['join', 'extend', 'fromkeys', 'update'])


class _Oracle(object):
  """mask family: every iteration over a set of n >= 2 elements uses the canonical order
  (sorted by repr) permuted by  i -> i XOR (mask mod 2^ceil(log2 n)).  For any two elements of
  any set some mask < 2^B swaps their relative order (B >= bits of the set size)."""

  def __init__(self):
    self.reset(0)

  def reset(self, mask):
    self.mask = mask
    self.events = 0
    self.permuted = 0
    self.max_size = 0


ORACLE = _Oracle()


def _vo_(e):
  t = type(e)
  if t is not set and t is not frozenset:
    return e
  items = sorted(e, key=repr)
  n = len(items)
  if n < 2:
    return items
  ORACLE.events += 1
  if n > ORACLE.max_size:
    ORACLE.max_size = n
  mm = ORACLE.mask & ((1 << (n - 1).bit_length()) - 1)
  if mm == 0:
    return items
  ORACLE.permuted += 1
  order = sorted(range(n), key=lambda i: i ^ mm)
  return [items[i] for i in order]


def _vpop_(e, *a):
  t = type(e)
  if t is not set or a:
    return e.pop(*a)
  x = _vo_(e)[0]
  e.discard(x)
  return x


_builtins.__dict__['_vo_'] = _vo_
_builtins.__dict__['_vpop_'] = _vpop_


class _Rewriter(_ast.NodeTransformer):
  def _wrap(self, e):
    return _ast.copy_location(_ast.Call(func=_ast.Name(id='_vo_', ctx=_ast.Load()), args=[e], keywords=[]), e)

  def visit_For(self, node):
    self.generic_visit(node)
    node.iter = self._wrap(node.iter)
    return node

  def visit_comprehension(self, node):
    self.generic_visit(node)
    node.iter = self._wrap(node.iter)
    return node

  def visit_AugAssign(self, node):
    self.generic_visit(node)
    if isinstance(node.op, _ast.Add):
      node.value = self._wrap(node.value)
    return node

  def visit_Call(self, node):
    self.generic_visit(node)
    f = node.func
    if isinstance(f, _ast.Name) and (f.id in _WRAP_ARGS or (f.id in _WRAP_IF_KEY and any(k.arg == 'key' for k in node.keywords))):
      node.args = [a if isinstance(a, _ast.Starred) else self._wrap(a) for a in node.args]
    elif isinstance(f, _ast.Attribute) and f.attr in _WRAP_METHOD_ARG:
      node.args = [a if isinstance(a, _ast.Starred) else self._wrap(a) for a in node.args]
    elif isinstance(f, _ast.Attribute) and f.attr == 'pop' and not node.keywords and len(node.args) == 0:
      return _ast.copy_location(_ast.Call(func=_ast.Name(id='_vpop_', ctx=_ast.Load()), args=[f.value], keywords=[]), node)
    return node


INSTRUMENTED = []


class _Loader(_mach.SourceFileLoader):
  def get_code(self, fullname):
    path = self.get_filename(fullname)
    if _os.path.realpath(path).startswith(_REPO_ROOT + _os.sep):
      data = self.get_data(path)
      tree = _Rewriter().visit(_ast.parse(data, path))
      _ast.fix_missing_locations(tree)
      INSTRUMENTED.append(_os.path.relpath(_os.path.realpath(path), _REPO_ROOT))
      return compile(tree, path, 'exec', dont_inherit=True)
    return _mach.SourceFileLoader.get_code(self, fullname)


class _Finder(object):
  """first on sys.meta_path: repository modules get the rewriting loader"""

  @staticmethod
  def find_spec(name, path=None, target=None):
    spec = _mach.PathFinder.find_spec(name, path)
    if spec is None or not spec.origin or not spec.origin.endswith('.py'):
      return None
    if not _os.path.realpath(spec.origin).startswith(_REPO_ROOT + _os.sep):
      return None
    spec.loader = _Loader(name, spec.origin)
    return spec


_sys.meta_path.insert(0, _Finder)
for _m in [m for m in list(_sys.modules) if m.split('.')[0] in ('compiler', 'parser_py', 'type_inference', 'common')]:
  del _sys.modules[_m]
'''
